//! Fixed-capacity (array-backed, no heap) finite map/set look-alikes of std HashMap/HashSet (verification environment).
//! Variant of collections_fixed.rs whose capacity is chosen by the including unit: `const VERIF_MAP_CAP: usize` in the parent module.
//! Adds values/values_mut/iter_mut/drain/extend. Capacity CAP; inserting a new key into a full map panics (a harness bound, never silent).
#![allow(missing_docs, clippy::all)]
use std::borrow::Borrow;
use std::marker::PhantomData;

pub const CAP: usize = super::VERIF_MAP_CAP;
pub struct HashMap<K, V, S = ()> { slots: [Option<(K, V)>; CAP], _s: PhantomData<S> }
pub struct HashSet<K, S = ()> { map: HashMap<K, (), S> }

impl<K: Clone, V: Clone, S> Clone for HashMap<K, V, S> { fn clone(&self) -> Self { Self { slots: self.slots.clone(), _s: PhantomData } } }
impl<K, V, S> Default for HashMap<K, V, S> { fn default() -> Self { Self { slots: std::array::from_fn(|_| None), _s: PhantomData } } }
impl<K, V> HashMap<K, V, ()> { pub fn new() -> Self { Self::default() } }
impl<K, V, S> HashMap<K, V, S> {
    pub fn len(&self) -> usize { let mut n = 0; let mut i = 0; while i < CAP { if self.slots[i].is_some() { n += 1; } i += 1; } n }
    pub fn is_empty(&self) -> bool { self.len() == 0 }
    pub fn iter(&self) -> impl Iterator<Item = (&K, &V)> + Clone + '_ { self.slots.iter().filter_map(|s| match s { Some((k, v)) => Some((k, v)), None => None }) }
    pub fn keys(&self) -> impl Iterator<Item = &K> + Clone + '_ { self.iter().map(|(k, _)| k) }
    pub fn values(&self) -> impl Iterator<Item = &V> + Clone + '_ { self.iter().map(|(_, v)| v) }
    pub fn iter_mut(&mut self) -> impl Iterator<Item = (&K, &mut V)> + '_ { self.slots.iter_mut().filter_map(|s| match s { Some((k, v)) => Some((&*k, v)), None => None }) }
    pub fn values_mut(&mut self) -> impl Iterator<Item = &mut V> + '_ { self.iter_mut().map(|(_, v)| v) }
    /// removes and yields every entry (slot order)
    pub fn drain(&mut self) -> IntoIter<K, V> { IntoIter { slots: std::mem::replace(&mut self.slots, std::array::from_fn(|_| None)), pos: 0 } }
}
impl<K: Eq, V, S> HashMap<K, V, S> {
    fn pos<Q: ?Sized + Eq>(&self, k: &Q) -> Option<usize> where K: Borrow<Q> {
        let mut i = 0;
        while i < CAP { if let Some((key, _)) = &self.slots[i] { if key.borrow() == k { return Some(i); } } i += 1; }
        None
    }
    pub fn get<Q: ?Sized + Eq>(&self, k: &Q) -> Option<&V> where K: Borrow<Q> { match self.pos(k) { Some(i) => self.slots[i].as_ref().map(|(_, v)| v), None => None } }
    pub fn get_mut<Q: ?Sized + Eq>(&mut self, k: &Q) -> Option<&mut V> where K: Borrow<Q> { match self.pos(k) { Some(i) => self.slots[i].as_mut().map(|(_, v)| v), None => None } }
    pub fn contains_key<Q: ?Sized + Eq>(&self, k: &Q) -> bool where K: Borrow<Q> { self.pos(k).is_some() }
    pub fn insert(&mut self, k: K, v: V) -> Option<V> {
        match self.pos(&k) {
            Some(i) => self.slots[i].replace((k, v)).map(|(_, old)| old),
            None => { let mut i = 0; while i < CAP { if self.slots[i].is_none() { self.slots[i] = Some((k, v)); return None; } i += 1; } panic!("collections_fixed: capacity exceeded") }
        }
    }
    pub fn remove<Q: ?Sized + Eq>(&mut self, k: &Q) -> Option<V> where K: Borrow<Q> { match self.pos(k) { Some(i) => self.slots[i].take().map(|(_, v)| v), None => None } }
}
impl<K: Eq, V, S> HashMap<K, V, S> {
    pub fn entry(&mut self, k: K) -> Entry<'_, K, V, S> { Entry { map: self, key: k } }
}
pub struct Entry<'a, K, V, S> { map: &'a mut HashMap<K, V, S>, key: K }
impl<'a, K: Eq, V, S> Entry<'a, K, V, S> {
    pub fn or_insert_with<F: FnOnce() -> V>(self, f: F) -> &'a mut V {
        let i = match self.map.pos(&self.key) {
            Some(i) => i,
            None => { let mut i = 0; while i < CAP && self.map.slots[i].is_some() { i += 1; } assert!(i < CAP, "collections_fixed: capacity exceeded"); self.map.slots[i] = Some((self.key, f())); i }
        };
        match &mut self.map.slots[i] { Some((_, v)) => v, None => unreachable!() }
    }
    pub fn or_default(self) -> &'a mut V where V: Default { self.or_insert_with(V::default) }
}
impl<K: Eq, V, S, Q: ?Sized + Eq> std::ops::Index<&Q> for HashMap<K, V, S> where K: Borrow<Q> { type Output = V; fn index(&self, k: &Q) -> &V { self.get(k).expect("no entry found for key") } }
pub struct IntoIter<K, V> { slots: [Option<(K, V)>; CAP], pos: usize }
impl<K, V> Iterator for IntoIter<K, V> {
    type Item = (K, V);
    fn next(&mut self) -> Option<(K, V)> { while self.pos < CAP { let x = self.slots[self.pos].take(); self.pos += 1; if x.is_some() { return x; } } None }
}
impl<K, V, S> IntoIterator for HashMap<K, V, S> { type Item = (K, V); type IntoIter = IntoIter<K, V>; fn into_iter(self) -> IntoIter<K, V> { IntoIter { slots: self.slots, pos: 0 } } }
impl<K: Eq, V, S> Extend<(K, V)> for HashMap<K, V, S> { fn extend<I: IntoIterator<Item = (K, V)>>(&mut self, it: I) { for (k, v) in it { self.insert(k, v); } } }
impl<K: Eq, V, S> FromIterator<(K, V)> for HashMap<K, V, S> { fn from_iter<I: IntoIterator<Item = (K, V)>>(it: I) -> Self { let mut m = Self::default(); for (k, v) in it { m.insert(k, v); } m } }

impl<K: Clone, S> Clone for HashSet<K, S> { fn clone(&self) -> Self { Self { map: self.map.clone() } } }
impl<K, S> Default for HashSet<K, S> { fn default() -> Self { Self { map: HashMap::default() } } }
impl<K, S> HashSet<K, S> {
    pub fn len(&self) -> usize { self.map.len() }
    pub fn is_empty(&self) -> bool { self.map.is_empty() }
    pub fn iter(&self) -> impl Iterator<Item = &K> + Clone + '_ { self.map.slots.iter().filter_map(|s| match s { Some((k, _)) => Some(k), None => None }) }
}
impl<K: Eq, S> HashSet<K, S> {
    pub fn contains<Q: ?Sized + Eq>(&self, k: &Q) -> bool where K: Borrow<Q> { self.map.contains_key(k) }
    pub fn insert(&mut self, k: K) -> bool { if self.map.contains_key(&k) { false } else { self.map.insert(k, ()); true } }
    pub fn remove<Q: ?Sized + Eq>(&mut self, k: &Q) -> bool where K: Borrow<Q> { self.map.remove(k).is_some() }
}
pub struct SetIntoIter<K> { it: IntoIter<K, ()> }
impl<K> Iterator for SetIntoIter<K> { type Item = K; fn next(&mut self) -> Option<K> { self.it.next().map(|(k, _)| k) } }
impl<K, S> IntoIterator for HashSet<K, S> { type Item = K; type IntoIter = SetIntoIter<K>; fn into_iter(self) -> SetIntoIter<K> { SetIntoIter { it: self.map.into_iter() } } }
impl<K: Eq, S> Extend<K> for HashSet<K, S> { fn extend<I: IntoIterator<Item = K>>(&mut self, it: I) { for k in it { self.insert(k); } } }
impl<K, S> HashSet<K, S> { pub fn new() -> Self { Self::default() } }
impl<K: Eq, S> FromIterator<K> for HashSet<K, S> { fn from_iter<I: IntoIterator<Item = K>>(it: I) -> Self { let mut m = Self::default(); for k in it { m.insert(k); } m } }
