//! Stand-in for std `String` inside string-keyed rule functions (verification environment): an id is a pick from a constant
//! table of distinct `&'static str`s, so equality of ids == equality of picks and `as_str()` / deref give real text to the
//! code's own comparisons with string literals. No heap.
#![allow(missing_docs, clippy::all)]
pub const TABLE: [&str; 10] = ["departure", "arrival", "break", "reload", "job1", "job2", "vehicle_1", "vehicle_2", "recharge", "pickup"];
#[derive(Clone, Copy, PartialEq, Eq, Hash, Debug, PartialOrd, Ord, Default)]
pub struct String(pub u8);
impl String {
    pub fn new() -> Self { String(0) }
    pub fn as_str(&self) -> &'static str { TABLE[self.0 as usize] }
}
impl std::ops::Deref for String { type Target = str; fn deref(&self) -> &str { self.as_str() } }
impl PartialEq<str> for String { fn eq(&self, o: &str) -> bool { self.as_str() == o } }
impl PartialEq<&str> for String { fn eq(&self, o: &&str) -> bool { self.as_str() == *o } }
