//! Eager stand-in for std's lazy FlatMap adapter (verification environment): CBMC does not get through FlattenCompat's
//! front/back iterator state and the symbolic size hints it feeds into collect(). Same items in the same order for closures
//! without side effects on what is iterated; the whole result is materialised first and handed out by a plain index iterator
//! (not vec::IntoIter: collect()'s in-place specialisation on it is another thing CBMC does not get through).
pub struct Eager<T> { items: Vec<Option<T>>, pos: usize }
impl<T> Iterator for Eager<T> {
    type Item = T;
    fn next(&mut self) -> Option<T> { if self.pos < self.items.len() { let x = self.items[self.pos].take(); self.pos += 1; x } else { None } }
    fn size_hint(&self) -> (usize, Option<usize>) { let n = self.items.len() - self.pos; (n, Some(n)) }
}
pub trait FlatMapEager: Iterator + Sized {
    fn flat_map_eager<U: IntoIterator, F: FnMut(Self::Item) -> U>(self, mut f: F) -> Eager<U::Item> {
        let mut items = Vec::new();
        for x in self { for y in f(x) { items.push(Some(y)); } }
        Eager { items, pos: 0 }
    }
}
impl<T: Iterator> FlatMapEager for T {}
