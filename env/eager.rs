//! Eager stand-in for std's lazy FlatMap adapter (verification environment): CBMC does not get through FlattenCompat's
//! front/back iterator state and the symbolic size hints it feeds into collect(). Same items in the same order for closures
//! without side effects on what is iterated; the whole result is materialised first - in an inline array, not a Vec (a symbolic
//! number of pushes makes every push a possible reallocation) - and handed out by a plain index iterator (not vec::IntoIter:
//! collect()'s in-place specialisation on it is another thing CBMC does not get through). More than CAP items panic (a harness bound).
pub const CAP: usize = 8;
pub struct Eager<T> { items: [Option<T>; CAP], len: usize, pos: usize }
impl<T> Iterator for Eager<T> {
    type Item = T;
    fn next(&mut self) -> Option<T> { if self.pos < self.len { let x = self.items[self.pos].take(); self.pos += 1; x } else { None } }
    fn size_hint(&self) -> (usize, Option<usize>) { let n = self.len - self.pos; (n, Some(n)) }
}
pub trait FlatMapEager: Iterator + Sized {
    fn flat_map_eager<U: IntoIterator, F: FnMut(Self::Item) -> U>(self, mut f: F) -> Eager<U::Item> {
        let mut e = Eager { items: [const { None }; CAP], len: 0, pos: 0 };
        for x in self { for y in f(x) { assert!(e.len < CAP, "env/eager.rs: capacity exceeded"); e.items[e.len] = Some(y); e.len += 1; } }
        e
    }
    /// eager stand-in for `.flatten()`
    fn flatten_eager(self) -> Eager<<Self::Item as IntoIterator>::Item> where Self::Item: IntoIterator { self.flat_map_eager(|x| x) }
}
impl<T: Iterator> FlatMapEager for T {}
