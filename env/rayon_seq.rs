//! Sequential CONTRACT stand-in for the subset of rayon the repository's parallel.rs wrappers use (verification environment).
//! Every item is visited exactly once, in order; `fold` splits the items into two consecutive parts at an ARBITRARY point and folds
//! each part on its own (rayon may split anywhere; deeper split trees are not modelled); `reduce` combines the parts left to right
//! starting from the identity. `par_chunks_exact` drops the remainder like the real one. flat_map is eager (env/eager.rs), so at most
//! eager::CAP items can flow through it.
#![allow(missing_docs, clippy::all)]
use super::verif_eager::{Eager, FlatMapEager};

#[cfg(kani)] fn any_split(n: usize) -> usize { let k: usize = kani::any(); kani::assume(k <= n); k }
#[cfg(not(kani))] fn any_split(n: usize) -> usize { n / 2 }
#[cfg(kani)] pub fn current_num_threads() -> usize { let k: usize = kani::any(); kani::assume(k >= 1 && k <= 4); k }
#[cfg(not(kani))] pub fn current_num_threads() -> usize { 2 }

pub struct Par<I>(pub I);
pub trait IntoParallelIterator { type Item; type Iter: Iterator<Item = Self::Item>; fn into_par_iter(self) -> Par<Self::Iter>; }
impl<I: Iterator> IntoParallelIterator for Par<I> { type Item = I::Item; type Iter = I; fn into_par_iter(self) -> Par<I> { self } }
impl<T> IntoParallelIterator for Vec<T> { type Item = T; type Iter = std::vec::IntoIter<T>; fn into_par_iter(self) -> Par<Self::Iter> { Par(self.into_iter()) } }
impl<'a, T> IntoParallelIterator for &'a [T] { type Item = &'a T; type Iter = std::slice::Iter<'a, T>; fn into_par_iter(self) -> Par<Self::Iter> { Par(self.iter()) } }
impl<'a, T> IntoParallelIterator for &'a Vec<T> { type Item = &'a T; type Iter = std::slice::Iter<'a, T>; fn into_par_iter(self) -> Par<Self::Iter> { Par(self.iter()) } }
pub trait IntoParallelRefIterator<'a> { type Item: 'a; type Iter: Iterator<Item = Self::Item>; fn par_iter(&'a self) -> Par<Self::Iter>; }
impl<'a, T: 'a> IntoParallelRefIterator<'a> for [T] { type Item = &'a T; type Iter = std::slice::Iter<'a, T>; fn par_iter(&'a self) -> Par<Self::Iter> { Par(self.iter()) } }
impl<'a, T: 'a> IntoParallelRefIterator<'a> for Vec<T> { type Item = &'a T; type Iter = std::slice::Iter<'a, T>; fn par_iter(&'a self) -> Par<Self::Iter> { Par(self.iter()) } }
pub trait IntoParallelRefMutIterator<'a> { type Item: 'a; type Iter: Iterator<Item = Self::Item>; fn par_iter_mut(&'a mut self) -> Par<Self::Iter>; }
impl<'a, T: 'a> IntoParallelRefMutIterator<'a> for [T] { type Item = &'a mut T; type Iter = std::slice::IterMut<'a, T>; fn par_iter_mut(&'a mut self) -> Par<Self::Iter> { Par(self.iter_mut()) } }
pub trait ParallelSlice<T> {
    fn par_chunks(&self, n: usize) -> Par<std::slice::Chunks<'_, T>>;
    fn par_chunks_exact(&self, n: usize) -> Par<std::slice::ChunksExact<'_, T>>;
}
impl<T> ParallelSlice<T> for [T] {
    fn par_chunks(&self, n: usize) -> Par<std::slice::Chunks<'_, T>> { Par(self.chunks(n)) }
    fn par_chunks_exact(&self, n: usize) -> Par<std::slice::ChunksExact<'_, T>> { Par(self.chunks_exact(n)) }
}
/// the two partial results of a split fold
pub struct Two<T> { items: [Option<T>; 2], pos: usize }
impl<T> Iterator for Two<T> { type Item = T; fn next(&mut self) -> Option<T> { if self.pos < 2 { let x = self.items[self.pos].take(); self.pos += 1; x } else { None } } }
impl<I: Iterator> Par<I> {
    pub fn map<R, F: Fn(I::Item) -> R>(self, f: F) -> Par<std::iter::Map<I, F>> { Par(self.0.map(f)) }
    pub fn flat_map<U: IntoParallelIterator, F: Fn(I::Item) -> U>(self, f: F) -> Par<Eager<U::Item>> { Par(self.0.flat_map_eager(move |x| f(x).into_par_iter().0)) }
    pub fn flat_map_iter<U: IntoIterator, F: Fn(I::Item) -> U>(self, f: F) -> Par<Eager<U::Item>> { Par(self.0.flat_map_eager(f)) }
    pub fn for_each<F: Fn(I::Item)>(self, f: F) { for x in self.0 { f(x); } }
    pub fn collect<C: FromIterator<I::Item>>(self) -> C { self.0.collect() }
    pub fn reduce<ID: Fn() -> I::Item, OP: Fn(I::Item, I::Item) -> I::Item>(self, identity: ID, op: OP) -> I::Item { let mut acc = identity(); for x in self.0 { acc = op(acc, x); } acc }
    pub fn fold<T, ID: Fn() -> T, F: Fn(T, I::Item) -> T>(self, identity: ID, fold_op: F) -> Par<Two<T>> {
        let (lo, hi) = self.0.size_hint();
        let n = hi.unwrap_or(lo);
        let k = any_split(n);
        let (mut left, mut right) = (identity(), identity());
        let mut i = 0;
        for x in self.0 { if i < k { left = fold_op(left, x); } else { right = fold_op(right, x); } i += 1; }
        Par(Two { items: [Some(left), Some(right)], pos: 0 })
    }
}
pub mod prelude { pub use super::{IntoParallelIterator, IntoParallelRefIterator, IntoParallelRefMutIterator, ParallelSlice}; }
