//! Vec-backed finite map/set look-alikes of std HashMap/HashSet (verification environment).
#![allow(missing_docs, clippy::all)]
use std::borrow::Borrow;
use std::fmt::{Debug, Formatter};
use std::marker::PhantomData;
use std::ops::Index;

pub struct HashMap<K, V, S = ()> { items: Vec<(K, V)>, _s: PhantomData<S> }
pub struct HashSet<K, S = ()> { map: HashMap<K, (), S> }

impl<K: Clone, V: Clone, S> Clone for HashMap<K, V, S> { fn clone(&self) -> Self { Self { items: self.items.clone(), _s: PhantomData } } }
impl<K, V, S> Default for HashMap<K, V, S> { fn default() -> Self { Self { items: Vec::new(), _s: PhantomData } } }
impl<K: Debug, V: Debug, S> Debug for HashMap<K, V, S> { fn fmt(&self, f: &mut Formatter<'_>) -> std::fmt::Result { f.debug_map().entries(self.items.iter().map(|(k, v)| (k, v))).finish() } }

impl<K, V> HashMap<K, V, ()> {
    pub fn new() -> Self { Self::default() }
    pub fn with_capacity(_: usize) -> Self { Self::default() }
}
impl<K, V, S> HashMap<K, V, S> {
    pub fn with_capacity_and_hasher(_: usize, _: S) -> Self { Self::default() }
    pub fn with_hasher(_: S) -> Self { Self::default() }
    pub fn len(&self) -> usize { self.items.len() }
    pub fn is_empty(&self) -> bool { self.items.is_empty() }
    pub fn clear(&mut self) { self.items.clear() }
    pub fn iter(&self) -> impl Iterator<Item = (&K, &V)> + Clone + '_ { self.items.iter().map(|(k, v)| (k, v)) }
    pub fn iter_mut(&mut self) -> impl Iterator<Item = (&K, &mut V)> + '_ { self.items.iter_mut().map(|(k, v)| (&*k, v)) }
    pub fn keys(&self) -> impl Iterator<Item = &K> + Clone + '_ { self.items.iter().map(|(k, _)| k) }
    pub fn values(&self) -> impl Iterator<Item = &V> + Clone + '_ { self.items.iter().map(|(_, v)| v) }
    pub fn values_mut(&mut self) -> impl Iterator<Item = &mut V> + '_ { self.items.iter_mut().map(|(_, v)| v) }
    pub fn into_keys(self) -> impl Iterator<Item = K> { self.items.into_iter().map(|(k, _)| k) }
    pub fn into_values(self) -> impl Iterator<Item = V> { self.items.into_iter().map(|(_, v)| v) }
    pub fn drain(&mut self) -> std::vec::Drain<'_, (K, V)> { self.items.drain(..) }
    pub fn retain<F: FnMut(&K, &mut V) -> bool>(&mut self, mut f: F) { self.items.retain_mut(|(k, v)| f(k, v)) }
    pub fn shrink_to_fit(&mut self) {}
    pub fn reserve(&mut self, _: usize) {}
}
impl<K: Eq, V, S> HashMap<K, V, S> {
    fn pos<Q: ?Sized + Eq>(&self, k: &Q) -> Option<usize> where K: Borrow<Q> {
        let mut i = 0;
        while i < self.items.len() { if self.items[i].0.borrow() == k { return Some(i); } i += 1; }
        None
    }
    pub fn get<Q: ?Sized + Eq>(&self, k: &Q) -> Option<&V> where K: Borrow<Q> { self.pos(k).map(|i| &self.items[i].1) }
    pub fn get_mut<Q: ?Sized + Eq>(&mut self, k: &Q) -> Option<&mut V> where K: Borrow<Q> { match self.pos(k) { Some(i) => Some(&mut self.items[i].1), None => None } }
    pub fn get_key_value<Q: ?Sized + Eq>(&self, k: &Q) -> Option<(&K, &V)> where K: Borrow<Q> { self.pos(k).map(|i| (&self.items[i].0, &self.items[i].1)) }
    pub fn contains_key<Q: ?Sized + Eq>(&self, k: &Q) -> bool where K: Borrow<Q> { self.pos(k).is_some() }
    pub fn insert(&mut self, k: K, v: V) -> Option<V> {
        match self.pos(&k) { Some(i) => Some(std::mem::replace(&mut self.items[i].1, v)), None => { self.items.push((k, v)); None } }
    }
    pub fn remove<Q: ?Sized + Eq>(&mut self, k: &Q) -> Option<V> where K: Borrow<Q> { self.pos(k).map(|i| self.items.remove(i).1) }
    pub fn remove_entry<Q: ?Sized + Eq>(&mut self, k: &Q) -> Option<(K, V)> where K: Borrow<Q> { self.pos(k).map(|i| self.items.remove(i)) }
    pub fn entry(&mut self, k: K) -> Entry<'_, K, V, S> { let pos = self.pos(&k); Entry { map: self, key: k, pos } }
}
pub struct Entry<'a, K, V, S> { map: &'a mut HashMap<K, V, S>, key: K, pos: Option<usize> }
impl<'a, K: Eq, V, S> Entry<'a, K, V, S> {
    pub fn or_insert_with<F: FnOnce() -> V>(self, f: F) -> &'a mut V {
        let i = match self.pos { Some(i) => i, None => { self.map.items.push((self.key, f())); self.map.items.len() - 1 } };
        &mut self.map.items[i].1
    }
    pub fn or_insert(self, v: V) -> &'a mut V { self.or_insert_with(|| v) }
    pub fn or_default(self) -> &'a mut V where V: Default { self.or_insert_with(V::default) }
    pub fn and_modify<F: FnOnce(&mut V)>(self, f: F) -> Self { if let Some(i) = self.pos { f(&mut self.map.items[i].1) } self }
}
impl<K: Eq, V, S, Q: ?Sized + Eq> Index<&Q> for HashMap<K, V, S> where K: Borrow<Q> { type Output = V; fn index(&self, k: &Q) -> &V { self.get(k).expect("no entry found for key") } }
impl<K: Eq, V: PartialEq, S> PartialEq for HashMap<K, V, S> { fn eq(&self, o: &Self) -> bool { self.len() == o.len() && self.iter().all(|(k, v)| o.get(k).is_some_and(|w| v == w)) } }
impl<K: Eq, V: Eq, S> Eq for HashMap<K, V, S> {}
impl<K: Eq, V, S> FromIterator<(K, V)> for HashMap<K, V, S> { fn from_iter<I: IntoIterator<Item = (K, V)>>(it: I) -> Self { let mut m = Self::default(); m.extend(it); m } }
impl<K: Eq, V, S> Extend<(K, V)> for HashMap<K, V, S> { fn extend<I: IntoIterator<Item = (K, V)>>(&mut self, it: I) { for (k, v) in it { self.insert(k, v); } } }
impl<K, V, S> IntoIterator for HashMap<K, V, S> { type Item = (K, V); type IntoIter = std::vec::IntoIter<(K, V)>; fn into_iter(self) -> Self::IntoIter { self.items.into_iter() } }
impl<'a, K, V, S> IntoIterator for &'a HashMap<K, V, S> { type Item = (&'a K, &'a V); type IntoIter = std::iter::Map<std::slice::Iter<'a, (K, V)>, fn(&'a (K, V)) -> (&'a K, &'a V)>; fn into_iter(self) -> Self::IntoIter { fn f<K, V>(p: &(K, V)) -> (&K, &V) { (&p.0, &p.1) } self.items.iter().map(f::<K, V> as fn(&'a (K, V)) -> (&'a K, &'a V)) } }
impl<K: Eq, V, const N: usize> From<[(K, V); N]> for HashMap<K, V, ()> { fn from(a: [(K, V); N]) -> Self { a.into_iter().collect() } }

impl<K: Clone, S> Clone for HashSet<K, S> { fn clone(&self) -> Self { Self { map: self.map.clone() } } }
impl<K, S> Default for HashSet<K, S> { fn default() -> Self { Self { map: HashMap::default() } } }
impl<K: Debug, S> Debug for HashSet<K, S> { fn fmt(&self, f: &mut Formatter<'_>) -> std::fmt::Result { f.debug_set().entries(self.iter()).finish() } }
impl<K> HashSet<K, ()> { pub fn new() -> Self { Self::default() } pub fn with_capacity(_: usize) -> Self { Self::default() } }
impl<K, S> HashSet<K, S> {
    pub fn with_capacity_and_hasher(_: usize, _: S) -> Self { Self::default() }
    pub fn with_hasher(_: S) -> Self { Self::default() }
    pub fn len(&self) -> usize { self.map.len() }
    pub fn is_empty(&self) -> bool { self.map.is_empty() }
    pub fn clear(&mut self) { self.map.clear() }
    pub fn iter(&self) -> impl Iterator<Item = &K> + Clone + '_ { self.map.items.iter().map(|(k, _)| k) }
    pub fn drain(&mut self) -> impl Iterator<Item = K> + '_ { self.map.items.drain(..).map(|(k, _)| k) }
    pub fn retain<F: FnMut(&K) -> bool>(&mut self, mut f: F) { self.map.items.retain(|(k, _)| f(k)) }
    pub fn shrink_to_fit(&mut self) {}
    pub fn reserve(&mut self, _: usize) {}
}
impl<K: Eq, S> HashSet<K, S> {
    pub fn contains<Q: ?Sized + Eq>(&self, k: &Q) -> bool where K: Borrow<Q> { self.map.contains_key(k) }
    pub fn get<Q: ?Sized + Eq>(&self, k: &Q) -> Option<&K> where K: Borrow<Q> { self.map.get_key_value(k).map(|(k, _)| k) }
    pub fn insert(&mut self, k: K) -> bool { if self.map.contains_key(&k) { false } else { self.map.items.push((k, ())); true } }
    pub fn remove<Q: ?Sized + Eq>(&mut self, k: &Q) -> bool where K: Borrow<Q> { self.map.remove(k).is_some() }
    pub fn take<Q: ?Sized + Eq>(&mut self, k: &Q) -> Option<K> where K: Borrow<Q> { self.map.remove_entry(k).map(|(k, _)| k) }
    pub fn difference<'a>(&'a self, o: &'a Self) -> impl Iterator<Item = &'a K> + Clone + 'a { self.iter().filter(move |k| !o.contains(*k)) }
    pub fn intersection<'a>(&'a self, o: &'a Self) -> impl Iterator<Item = &'a K> + Clone + 'a { self.iter().filter(move |k| o.contains(*k)) }
    pub fn union<'a>(&'a self, o: &'a Self) -> impl Iterator<Item = &'a K> + Clone + 'a { self.iter().chain(o.difference(self)) }
    pub fn symmetric_difference<'a>(&'a self, o: &'a Self) -> impl Iterator<Item = &'a K> + Clone + 'a { self.difference(o).chain(o.difference(self)) }
    pub fn is_subset(&self, o: &Self) -> bool { self.iter().all(|k| o.contains(k)) }
    pub fn is_superset(&self, o: &Self) -> bool { o.is_subset(self) }
    pub fn is_disjoint(&self, o: &Self) -> bool { self.iter().all(|k| !o.contains(k)) }
}
impl<K: Eq, S> PartialEq for HashSet<K, S> { fn eq(&self, o: &Self) -> bool { self.len() == o.len() && self.is_subset(o) } }
impl<K: Eq, S> Eq for HashSet<K, S> {}
impl<K: Eq, S> FromIterator<K> for HashSet<K, S> { fn from_iter<I: IntoIterator<Item = K>>(it: I) -> Self { let mut m = Self::default(); m.extend(it); m } }
impl<K: Eq, S> Extend<K> for HashSet<K, S> { fn extend<I: IntoIterator<Item = K>>(&mut self, it: I) { for k in it { self.insert(k); } } }
impl<'a, K: Eq + Copy + 'a, S> Extend<&'a K> for HashSet<K, S> { fn extend<I: IntoIterator<Item = &'a K>>(&mut self, it: I) { for k in it { self.insert(*k); } } }
impl<K, S> IntoIterator for HashSet<K, S> { type Item = K; type IntoIter = std::iter::Map<std::vec::IntoIter<(K, ())>, fn((K, ())) -> K>; fn into_iter(self) -> Self::IntoIter { fn f<K>(p: (K, ())) -> K { p.0 } self.map.items.into_iter().map(f::<K> as fn((K, ())) -> K) } }
impl<'a, K, S> IntoIterator for &'a HashSet<K, S> { type Item = &'a K; type IntoIter = std::iter::Map<std::slice::Iter<'a, (K, ())>, fn(&'a (K, ())) -> &'a K>; fn into_iter(self) -> Self::IntoIter { fn f<K>(p: &(K, ())) -> &K { &p.0 } self.map.items.iter().map(f::<K> as fn(&'a (K, ())) -> &'a K) } }
impl<K: Eq, const N: usize> From<[K; N]> for HashSet<K, ()> { fn from(a: [K; N]) -> Self { a.into_iter().collect() } }
