//! Fixed-capacity (inline array, no heap) look-alike of std `Vec` (verification environment). A crate-local `use …::Vec;`
//! shadows the prelude's Vec inside extracted text, so `collect::<Vec<_>>()` of a symbolic number of items costs CBMC no
//! reallocation. Capacity VCAP (pushing beyond it panics: a harness bound, never silent). Behaves as the slice of its first
//! `len` items. Elements are never dropped (they are Copy values or references in the units that use it).
#![allow(missing_docs, clippy::all)]
use std::mem::MaybeUninit;
pub const VCAP: usize = super::VERIF_VEC_CAP;
pub struct Vec<T> { items: [MaybeUninit<T>; VCAP], len: usize }
impl<T: Copy> Clone for Vec<T> { fn clone(&self) -> Self { *self } }
impl<T: Copy> Copy for Vec<T> {}
impl<T> Default for Vec<T> { fn default() -> Self { Self { items: [const { MaybeUninit::uninit() }; VCAP], len: 0 } } }
impl<T: std::fmt::Debug> std::fmt::Debug for Vec<T> { fn fmt(&self, f: &mut std::fmt::Formatter<'_>) -> std::fmt::Result { self.as_slice().fmt(f) } }
impl<T> Vec<T> {
    pub fn new() -> Self { Self::default() }
    pub fn with_capacity(_: usize) -> Self { Self::default() }
    pub fn push(&mut self, x: T) { assert!(self.len < VCAP, "env/vec_fixed.rs: capacity exceeded"); unsafe { (self.items.as_mut_ptr() as *mut T).add(self.len).write(x); } self.len += 1; }
    pub fn as_slice(&self) -> &[T] { unsafe { std::slice::from_raw_parts(self.items.as_ptr() as *const T, self.len) } }
    pub fn as_mut_slice(&mut self) -> &mut [T] { unsafe { std::slice::from_raw_parts_mut(self.items.as_mut_ptr() as *mut T, self.len) } }
    pub fn clear(&mut self) { self.len = 0; }
    pub fn insert(&mut self, index: usize, x: T) {
        assert!(self.len < VCAP, "env/vec_fixed.rs: capacity exceeded"); assert!(index <= self.len, "insertion index out of bounds");
        // typed element moves through raw pointers (moving the MaybeUninit unions themselves loses their content in CBMC)
        let p = self.items.as_mut_ptr() as *mut T;
        let mut i = self.len; while i > index { unsafe { p.add(i).write(p.add(i - 1).read()); } i -= 1; }
        unsafe { p.add(index).write(x); } self.len += 1;
    }
    pub fn extend<I: IntoIterator<Item = T>>(&mut self, it: I) { for x in it { self.push(x); } }
    /// stand-in for std's slice sort (insertion sort; std's sort does not finish in CBMC on a symbolic length)
    pub fn sort(&mut self) where T: Ord { let n = self.len; let s = self.as_mut_slice(); let mut i = 1; while i < n { let mut j = i; while j > 0 && s[j - 1] > s[j] { s.swap(j - 1, j); j -= 1; } i += 1; } }
}
impl<T> std::ops::Deref for Vec<T> { type Target = [T]; fn deref(&self) -> &[T] { self.as_slice() } }
impl<T> std::ops::DerefMut for Vec<T> { fn deref_mut(&mut self) -> &mut [T] { self.as_mut_slice() } }
impl<T> FromIterator<T> for Vec<T> { fn from_iter<I: IntoIterator<Item = T>>(it: I) -> Self { let mut v = Self::default(); for x in it { v.push(x); } v } }
pub struct IntoIter<T> { v: Vec<T>, pos: usize }
impl<T> Iterator for IntoIter<T> { type Item = T; fn next(&mut self) -> Option<T> { if self.pos < self.v.len { self.pos += 1; Some(unsafe { self.v.items[self.pos - 1].assume_init_read() }) } else { None } } }
impl<T> IntoIterator for Vec<T> { type Item = T; type IntoIter = IntoIter<T>; fn into_iter(self) -> IntoIter<T> { IntoIter { v: self, pos: 0 } } }
impl<'a, T> IntoIterator for &'a Vec<T> { type Item = &'a T; type IntoIter = std::slice::Iter<'a, T>; fn into_iter(self) -> std::slice::Iter<'a, T> { self.as_slice().iter() } }
impl<T: PartialEq> PartialEq for Vec<T> { fn eq(&self, o: &Self) -> bool { self.as_slice() == o.as_slice() } }
