// helper attached to rosomaxa/src/utils/environment.rs (child module: may build the private Parallelism directly, without
// asking the operating system for the cpu count or creating thread pools)
use super::*;
pub fn environment(random: Arc<dyn Random>) -> Environment {
    Environment { random, quota: None, parallelism: Parallelism { available_cpus: 1, thread_pools: None }, logger: Arc::new(|_: &str| {}), is_experimental: false }
}
