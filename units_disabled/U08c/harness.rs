// U08c – Rosomaxa population (KO, child module of rosomaxa/src/population/rosomaxa.rs): a batch offered in the Initial
// or Exploitation phase never leaves the elite's best worse than any individual of the batch
use super::*;
use crate::utils::RandomGen;

struct Obj;
#[derive(Clone, Copy, PartialEq)]
struct Sol { id: u8, key: i8, w: [Float; 1] }
impl HeuristicSolution for Sol {
    fn fitness(&self) -> impl Iterator<Item = Float> { std::iter::once(self.key as Float) }
    fn deep_copy(&self) -> Self { *self }
}
impl Input for Sol { fn weights(&self) -> &[Float] { &self.w } }
struct Ext;
impl RosomaxaContext for Ext { type Solution = Sol; fn on_change(&mut self, _: &[Sol]) {} }
impl RosomaxaSolution for Sol { type Context = Ext; fn on_init(&mut self, _: &Ext) {} fn on_update(&mut self, _: &Ext) {} }
impl HeuristicObjective for Obj { type Solution = Sol; fn total_order(&self, a: &Sol, b: &Sol) -> Ordering { a.key.cmp(&b.key) } }
impl Alternative for Obj { fn maybe_new(&self, _: &(dyn Random)) -> Self { Obj } }
struct Rnd;
impl Random for Rnd {
    fn uniform_int(&self, min: i32, max: i32) -> i32 { let v: i32 = kani::any(); kani::assume(v >= min && v <= max); v }
    fn uniform_real(&self, min: Float, _max: Float) -> Float { min }
    fn is_head_not_tails(&self) -> bool { kani::any() }
    fn is_hit(&self, _: Float) -> bool { kani::any() }
    fn weighted(&self, _: &[usize]) -> usize { 0 }
    fn get_rng(&self) -> RandomGen { unimplemented!() }
}

fn population(exploitation: bool, elite_size: usize) -> Rosomaxa<Ext, Obj, Sol> {
    let objective = Arc::new(Obj);
    let random: Arc<dyn Random> = Arc::new(Rnd);
    let config = RosomaxaConfig { elite_size, ..RosomaxaConfig::new_with_defaults(4) };
    Rosomaxa {
        external_ctx: Ext,
        objective: objective.clone(),
        environment: Arc::new(crate::utils::verif_u08c_env::environment(random.clone())),
        elite: Elitism::new_with_dedup(objective, random, config.elite_size, config.selection_size, Box::new(|_, _: &Sol, _: &Sol| false)),
        phase: if exploitation { RosomaxaPhases::Exploitation { selection_size: 4 } } else { RosomaxaPhases::Initial { solutions: vec![] } },
        config,
    }
}

/// C08: after a batch the first ranked individual is no worse than the previous best and than EVERY individual of the batch
fn batch<const B: usize>(with_previous: bool, exploitation: bool, elite_size: usize) {
    let mut p = population(exploitation, elite_size);
    let prev = Sol { id: 100, key: kani::any(), w: [0.] };
    if with_previous { p.add(prev); }
    let xs: [Sol; B] = core::array::from_fn(|i| Sol { id: i as u8, key: kani::any(), w: [0.] });
    p.add_all(xs.to_vec());
    let best = p.ranked().next().copied().expect("post_population_non_empty_after_a_batch");
    let mut i = 0;
    while i < B { assert!(best.key <= xs[i].key, "post_best_not_worse_than_any_individual_of_the_batch"); i += 1; }
    if with_previous { assert!(best.key <= prev.key, "post_best_not_worse_than_before"); }
    assert!(best == prev || xs.contains(&best), "post_no_invention");
    assert!(p.size() >= 1, "post_size_positive");
}
// (a batch larger than the elite is the interesting case; elite_size 1 with a batch of 2 keeps the instance small:
//  batches of 3 with the default elite_size 2 need > 10 GB in CBMC)
#[kani::proof] #[kani::unwind(6)] fn rosomaxa_initial_batch_2_elite_1_from_one() { batch::<2>(true, false, 1) }
#[kani::proof] #[kani::unwind(6)] fn rosomaxa_initial_batch_2_elite_1_from_empty() { batch::<2>(false, false, 1) }
#[kani::proof] #[kani::unwind(6)] fn rosomaxa_exploitation_batch_2_elite_1_from_one() { batch::<2>(true, true, 1) }
#[kani::proof] #[kani::unwind(6)] fn rosomaxa_initial_single_add_elite_2_from_one() { batch::<1>(true, false, 2) }
