// U14c – vehicle registry (models/solution/registry.rs, verbatim): offers a vehicle exactly when it is not in use,
// never hands one out twice; deep copies are independent
#![allow(dead_code, unused_variables, unused_imports)]
#[path = "@VERIF_ENV@/collections.rs"]
mod verif_env;
use verif_env::{HashMap, HashSet};
use std::sync::Arc;

// ------------------------------------------------------------------ environment (assumed)
/// real: Actor compared and hashed by address; here by a unique id
#[derive(PartialEq, Eq, Hash, Debug)] pub struct Actor { pub id: u8 }
pub struct Fleet { pub groups: HashMap<usize, HashSet<Arc<Actor>>>, pub actors: Vec<Arc<Actor>> }
pub trait Random { fn uniform_int(&self, min: i32, max: i32) -> i32; }

// ------------------------------------------------------------------ code under contract (verbatim from /repo)
//@extract vrp-core/src/models/solution/registry.rs :: struct Registry
//@end
//@extract vrp-core/src/models/solution/registry.rs :: impl Registry
//@end

#[cfg(kani)]
mod h {
    use super::*;
    struct Rnd;
    impl Random for Rnd { fn uniform_int(&self, min: i32, max: i32) -> i32 { let v: i32 = kani::any(); kani::assume(v >= min && v <= max); v } }
    const N: usize = 3;
    /// three vehicles in two type groups: {a0, a1} and {a2}
    fn fleet() -> (Registry, [Arc<Actor>; N]) {
        let a: [Arc<Actor>; N] = [Arc::new(Actor { id: 0 }), Arc::new(Actor { id: 1 }), Arc::new(Actor { id: 2 })];
        let mut groups: HashMap<usize, HashSet<Arc<Actor>>> = HashMap::default();
        let mut g0 = HashSet::default(); g0.insert(a[0].clone()); g0.insert(a[1].clone());
        let mut g1 = HashSet::default(); g1.insert(a[2].clone());
        groups.insert(0, g0); groups.insert(1, g1);
        let f = Fleet { groups, actors: a.to_vec() };
        (Registry::new(&f, Arc::new(Rnd)), a)
    }
    fn check_view(r: &Registry, a: &[Arc<Actor>; N], free: &[bool; N]) {
        // available() yields exactly the vehicles that are not in use, each once
        let mut seen = [0u8; N];
        for x in r.available() { seen[x.id as usize] += 1; }
        let mut i = 0;
        while i < N { assert!(seen[i] == free[i] as u8, "post_offered_exactly_when_not_in_use"); i += 1; }
        // next() yields at most one vehicle per type group, only free ones, and one for every group that has a free vehicle
        let mut per_group = [0u8; 2];
        for x in r.next() { assert!(free[x.id as usize], "post_next_offers_only_free_vehicles"); per_group[if x.id < 2 { 0 } else { 1 }] += 1; }
        assert!(per_group[0] == (free[0] || free[1]) as u8 && per_group[1] == free[2] as u8, "post_next_offers_one_per_group_with_free_vehicles");
        let mut cnt = 0;
        for x in r.all() { cnt += 1; }
        assert!(cnt == N, "post_all_lists_every_vehicle");
    }

    /// inductive step: from ANY registry state (each vehicle free or in use) one acquire or release of vehicle I
    /// behaves like the reference model: use_actor succeeds exactly when the vehicle was free (never hands one out twice),
    /// free_actor exactly when it was in use; afterwards the views agree with the model
    fn one_operation<const I: usize>() {
        let (mut r, a) = fleet();
        let mut free: [bool; N] = kani::any();
        if !free[0] { r.use_actor(&a[0]); }
        if !free[1] { r.use_actor(&a[1]); }
        if !free[2] { r.use_actor(&a[2]); }
        if kani::any() {
            let got = r.use_actor(&a[I]);
            assert!(got == free[I], "post_use_succeeds_iff_vehicle_was_free");
            free[I] = false;
        } else {
            let was_used = r.free_actor(&a[I]);
            assert!(was_used == !free[I], "post_free_succeeds_iff_vehicle_was_in_use");
            free[I] = true;
        }
        // state inspection through the fields (the iterator views are checked separately on constant states: with a symbolic
        // state the flat_map chains over the map of sets do not finish in CBMC)
        let mut i = 0;
        while i < N {
            let g = if i < 2 { 0usize } else { 1usize };
            assert!(r.available.get(&g).unwrap().contains(&a[i]) == free[i], "post_available_set_is_exactly_the_free_vehicles");
            i += 1;
        }
    }
    #[kani::proof] #[kani::unwind(6)] fn registry_views_all_free() { let (r, a) = fleet(); check_view(&r, &a, &[true, true, true]); }
    #[kani::proof] #[kani::unwind(6)] fn registry_views_one_group_exhausted() { let (mut r, a) = fleet(); r.use_actor(&a[2]); r.use_actor(&a[0]); check_view(&r, &a, &[false, true, false]); }
    #[kani::proof] #[kani::unwind(6)] fn registry_step_vehicle_0() { one_operation::<0>() }
    #[kani::proof] #[kani::unwind(6)] fn registry_step_vehicle_1() { one_operation::<1>() }
    #[kani::proof] #[kani::unwind(6)] fn registry_step_vehicle_2() { one_operation::<2>() }

    /// a deep copy is independent of its original
    #[kani::proof] #[kani::unwind(6)]
    fn registry_deep_copy_is_independent() {
        let (mut r, a) = fleet();
        let (i, j) = (1usize, 0usize);   // constant vehicles (same type group), symbolic operation kind
        r.use_actor(&a[i]);
        let mut c = r.deep_copy();
        let mut free_r = [true; N]; free_r[i] = false;
        let mut free_c = free_r;
        if kani::any() { c.use_actor(&a[j]); free_c[j] = false; } else { c.free_actor(&a[j]); free_c[j] = true; }
        let mut k = 0;
        while k < N {
            let g = if k < 2 { 0usize } else { 1usize };
            assert!(r.available.get(&g).unwrap().contains(&a[k]) == free_r[k], "post_original_unchanged_by_operations_on_the_copy");
            assert!(c.available.get(&g).unwrap().contains(&a[k]) == free_c[k], "post_copy_mutated_alone");
            k += 1;
        }
    }
}
