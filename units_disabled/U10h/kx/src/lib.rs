// U10h – relation rule E1207 (a job named in a relation must be named once per task it has) (validation/relations.rs, verbatim)
// with collect_group_by_key (rosomaxa utils/iterators.rs, verbatim) against the documented rule
#![allow(dead_code, unused_macros, unused_variables, unused_imports)]
macro_rules! format { ($($t:tt)*) => { () } } // message text dropped (the error CODE is what the property speaks about)
const VERIF_MAP_CAP: usize = 4;
#[path = "@VERIF_ENV@/collections_fixed_n.rs"]
mod verif_env;
use verif_env::HashMap;
#[path = "@VERIF_ENV@/strings.rs"]
mod verif_strings;
use verif_strings::String;
const VERIF_VEC_CAP: usize = 4;
#[path = "@VERIF_ENV@/vec_fixed.rs"]
mod verif_vec;
use verif_vec::Vec;
#[path = "@VERIF_ENV@/eager.rs"]
mod verif_eager;
use verif_eager::FlatMapEager;
use std::hash::Hash;

// ------------------------------------------------------------------ environment (assumed)
/// a task list of which only the length is read (real: Option<Vec<JobTask>>)
#[derive(Clone, Copy, Default)] pub struct JobTask;
pub struct Job { pub id: String, pub pickups: Option<Vec<u8>>, pub deliveries: Option<Vec<u8>>, pub replacements: Option<Vec<u8>>, pub services: Option<Vec<u8>> }
pub struct Relation { pub jobs: Vec<String> }
pub struct ValidationContext { pub job_index: HashMap<String, Job> }
pub struct FormatError { pub code: [u8; 5] }
impl FormatError { pub fn new<A, B>(code: std::string::String, _cause: A, _action: B) -> Self { let b = code.as_bytes(); Self { code: [b[0], b[1], b[2], b[3], b[4]] } } }

// ------------------------------------------------------------------ code under contract (verbatim from /repo)
//@extract rosomaxa/src/utils/iterators.rs :: trait CollectGroupBy
//@end
//@extract rosomaxa/src/utils/iterators.rs :: impl<T: Iterator> CollectGroupBy for T
//@end
//@extract vrp-pragmatic/src/validation/relations.rs :: fn check_e1207_no_incomplete_relation
//@subst "|tasks: &Option<Vec<JobTask>>|" => "|tasks: &Option<Vec<u8>>|" count=1
//@subst ".flatten()" => ".flatten_eager()" count=1
//@end

#[cfg(kani)]
mod h {
    use super::*;
    fn list<T, const N: usize>(xs: [T; N]) -> Vec<T> { xs.into_iter().collect() }
    fn tasks(n: usize) -> Option<Vec<u8>> { if n == 0 { if kani::any() { None } else { Some(Vec::new()) } } else if n == 1 { Some(list([0u8])) } else { Some(list([0u8, 0u8])) } }
    /// one relation of three ids over {job1, job2, break}; job1 has P pickups and D deliveries, job2 is a single-task job
    fn e1207<const P: usize, const D: usize>() {
        let pick = || { let i: u8 = kani::any(); kani::assume(i == 2 || i == 4 || i == 5); String(i) };
        let ids = [pick(), pick(), pick()];
        let mut job_index: HashMap<String, Job> = Default::default();
        job_index.insert(String(4), Job { id: String(4), pickups: tasks(P), deliveries: tasks(D), replacements: None, services: None });
        job_index.insert(String(5), Job { id: String(5), pickups: None, deliveries: None, replacements: None, services: tasks(1) });
        let r = check_e1207_no_incomplete_relation(&ValidationContext { job_index }, &[Relation { jobs: list(ids) }]);
        let count = |x: u8| ids.iter().filter(|i| i.0 == x).count();
        let broken = (count(4) > 0 && count(4) != P + D) || (count(5) > 0 && count(5) != 1);
        assert!(r.is_err() == broken, "post_rule_rejects_exactly_when_the_documented_rule_is_broken");
        if let Err(e) = &r { assert!(e.code == *b"E1207", "post_reported_code_names_the_rule"); }
        kani::cover!(broken); kani::cover!(!broken && count(4) > 0);
    }
    #[kani::proof] #[kani::unwind(12)] fn e1207_pickup_and_delivery_job_named_twice() { e1207::<1, 1>() }
    #[kani::proof] #[kani::unwind(12)] fn e1207_single_task_job_named_once() { e1207::<1, 0>() }
}
