#!/usr/bin/env python3
"""writes /verif/seeded/<id>/meta.json from the agent's meta + my confirmation log + detection result given on the command line
usage: mkseedmeta.py <ID> <detected: yes|no|partial> <by which check/obligation or why missed>"""
import json, os, sys
i, det, note = sys.argv[1], sys.argv[2], sys.argv[3]
d = f"/verif/seeded/{i}"
a = json.load(open(f"{d}/agent_meta.json"))
log = open(f"{d}/confirm.log").read()
m = {
    "id": i, "property": a.get("property", i), "summary": a.get("summary"), "files": a.get("files"),
    "needs_to_manifest": a.get("needs_to_manifest"), "why_tests_still_pass": a.get("why_tests_still_pass"),
    "origin": "independent sub-agent given only the property text and a scratch worktree of /repo (nothing from /verif)",
    "confirmed_by_me": "CONFIRMED" in log and "NOT CONFIRMED" not in log,
    "what_i_ran": ["tools/confirm_seed.sh (demo with patch -> fails; demo without patch -> passes; cargo test --workspace --no-fail-fast --offline with patch -> passes)"],
    "confirm_log": log.strip().split("\n"),
    "detected_by_checks": det, "detection_note": note,
}
json.dump(m, open(f"{d}/meta.json", "w"), indent=1)
print(i, m["confirmed_by_me"], det)
