#!/bin/bash
# usage: with_patch.sh <seed id> -- <check args>: runs a check against a scratch copy of /repo with seeded/<id>/patch.diff applied
# (development helper; evidence/replays go to /tmp/verif-dev-out, never to /verif)
set -u
ID=$1; shift; shift
D=/tmp/verif-patched-$ID-$$
rsync -a --exclude /target --exclude .git /repo/ $D/
( cd $D && patch -p1 -s < /verif/seeded/$ID/patch.diff ) || { echo "patch failed"; rm -rf $D; exit 2; }
VERIF_REPO=$D /verif/check "$@"; rc=$?
rm -rf $D
echo "exit $rc"
