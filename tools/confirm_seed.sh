#!/bin/bash
# usage: confirm_seed.sh <ID> <cargo package> <integration test name> <demo file path relative to the worktree>
# Confirms, in the agent's scratch worktree /tmp/wt-<ID>, that (1) the demo fails with the patch, (2) passes without it,
# (3) the existing suite passes with the patch. Copies the deliverables to /verif/seeded/<ID>/.
set -u
ID=$1; PKG=$2; TEST=$3; DEMO=$4
WT=/tmp/wt-$ID; OUT=/verif/seeded/$ID; mkdir -p $OUT
cp /tmp/out-$ID/patch.diff $OUT/patch.diff
cp /tmp/out-$ID/demo_test.rs $OUT/demo_test.rs 2>/dev/null
cp /tmp/out-$ID/demo_instructions.txt $OUT/ 2>/dev/null
cp /tmp/out-$ID/meta.json $OUT/agent_meta.json
L=$OUT/confirm.log; : > $L
cd $WT || exit 2
[ -f "$DEMO" ] || cp /tmp/out-$ID/demo_test.rs "$DEMO"
echo "## git diff vs patch.diff" >> $L
if diff <(git diff) $OUT/patch.diff >/dev/null; then echo "worktree diff == patch.diff" >> $L; else echo "NOTE: worktree diff differs from patch.diff; re-applying" >> $L; git checkout -q -- . ; git apply $OUT/patch.diff || { echo "patch does not apply" >> $L; exit 2; }; fi
echo "## demo WITH patch (expected: fails)" >> $L
cargo test -p $PKG --test $TEST --offline > /tmp/confirm-$ID-with.log 2>&1; RC_WITH=$?
grep -E "^test result|^test .* (FAILED|ok)$" /tmp/confirm-$ID-with.log >> $L
git apply -R $OUT/patch.diff   # (not git stash: the stash is shared by all worktrees)
echo "## demo WITHOUT patch (expected: passes)" >> $L
cargo test -p $PKG --test $TEST --offline > /tmp/confirm-$ID-without.log 2>&1; RC_WITHOUT=$?
grep -E "^test result|^test .* (FAILED|ok)$" /tmp/confirm-$ID-without.log >> $L
git apply $OUT/patch.diff
echo "## existing suite WITH patch, demo file moved away (expected: passes)" >> $L
mv "$DEMO" /tmp/confirm-$ID-demo.rs
cargo test --workspace --no-fail-fast --offline > /tmp/confirm-$ID-suite.log 2>&1; RC_SUITE=$?
mv /tmp/confirm-$ID-demo.rs "$DEMO"
grep -E "^test result" /tmp/confirm-$ID-suite.log | awk '{p+=$4; f+=$6} END {print "suite: passed="p" failed="f}' >> $L
echo "rc_demo_with_patch=$RC_WITH rc_demo_without_patch=$RC_WITHOUT rc_suite_with_patch=$RC_SUITE" >> $L
if [ $RC_WITH -ne 0 ] && [ $RC_WITHOUT -eq 0 ] && [ $RC_SUITE -eq 0 ]; then echo "CONFIRMED" >> $L; else echo "NOT CONFIRMED" >> $L; fi
tail -3 $L
