#!/usr/bin/env python3
"""dev helper: run a check against a scratch copy of /repo with one exact-string mutation applied.
usage: with_mut.py <repo-relative file> <old> <new> -- <check args…>"""
import os, shutil, subprocess, sys
i = sys.argv.index("--")
rel, old, new = sys.argv[1:4]
dst = f"/var/tmp/vrp-mut-{os.getpid()}"
subprocess.check_call(["rsync", "-a", "--exclude", "target", "--exclude", ".git", "/repo/", dst + "/"])
try:
    p = os.path.join(dst, rel)
    s = open(p).read()
    assert s.count(old) >= 1, "mutation anchor not found"
    open(p, "w").write(s.replace(old, new, 1))
    env = dict(os.environ, VERIF_REPO=dst)
    rc = subprocess.call(["/verif/check"] + sys.argv[i + 1:], env=env)
    print("exit", rc)
finally:
    shutil.rmtree(dst, ignore_errors=True)
sys.exit(rc)
