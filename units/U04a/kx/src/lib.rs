// U04a – departure-time rescheduling (RescheduleDeparture operator / AdvanceDeparture post-processing):
// try_advance_departure_time / try_recede_departure_time (verbatim) keep every assigned activity inside its time window
#![allow(dead_code, unused_variables, unused_imports)]
use std::sync::Arc;

// ------------------------------------------------------------------ environment (assumed surroundings, NOT under proof)
pub type Float = f64;
pub type Timestamp = f64;
pub type Duration = f64;
pub type Location = usize;
#[derive(Clone, Copy)] pub enum TravelTime { Arrival(Timestamp), Departure(Timestamp) }
#[derive(Clone)] pub struct TimeWindow { pub start: Timestamp, pub end: Timestamp }
#[derive(Clone)] pub struct Schedule { pub arrival: Timestamp, pub departure: Timestamp }
#[derive(Clone)] pub struct Place { pub idx: usize, pub location: Location, pub duration: Duration, pub time: TimeWindow }
#[derive(Clone)] pub struct Activity { pub place: Place, pub schedule: Schedule }
pub struct TimeInterval { pub earliest: Option<Timestamp>, pub latest: Option<Timestamp> }
pub struct VehiclePlace { pub location: Location, pub time: TimeInterval }
pub struct ActorDetail { pub start: Option<VehiclePlace>, pub end: Option<VehiclePlace>, pub time: TimeWindow }
pub struct Actor { pub detail: ActorDetail }
/// the functions under contract read the tour through get / start / all_activities only
pub struct Tour { pub activities: Vec<Activity> }
impl Tour {
    pub fn get(&self, index: usize) -> Option<&Activity> { self.activities.get(index) }
    pub fn start(&self) -> Option<&Activity> { self.activities.first() }
    pub fn all_activities(&self) -> std::slice::Iter<Activity> { self.activities.iter() }
}
pub struct Route { pub actor: Arc<Actor>, pub tour: Tour }
/// cached states (their meaning - backward recurrence / totals - is unit U03a)
pub struct RouteState { pub latest_arrival: Vec<Timestamp>, pub total_duration: Option<Duration>, pub limit_duration: Option<Duration> }
impl RouteState {
    pub fn get_latest_arrival_at(&self, idx: usize) -> Option<&Timestamp> { self.latest_arrival.get(idx) }
    pub fn get_total_duration(&self) -> Option<&Duration> { self.total_duration.as_ref() }
    pub fn get_limit_duration(&self) -> Option<&Duration> { self.limit_duration.as_ref() }
}
pub struct RouteContext { pub route: Route, pub state: RouteState }
impl RouteContext { pub fn route(&self) -> &Route { &self.route } pub fn state(&self) -> &RouteState { &self.state } }
pub trait TransportCost { fn duration(&self, route: &Route, from: Location, to: Location, t: TravelTime) -> Duration; }
pub struct M { pub dur: [[Float; 4]; 4] }
impl TransportCost for M { fn duration(&self, _: &Route, from: Location, to: Location, _: TravelTime) -> Duration { self.dur[from][to] } }

// ------------------------------------------------------------------ code under contract (verbatim from /repo)
//@extract vrp-core/src/construction/enablers/departure_time.rs :: fn try_advance_departure_time
//@end
//@extract vrp-core/src/construction/enablers/departure_time.rs :: fn try_recede_departure_time
//@end

// ------------------------------------------------------------------ contract harnesses
#[cfg(kani)]
mod h {
    use super::*;
    /// integer-valued times; the value range is a per-harness bound (RANGE)
    static mut RANGE: u8 = 255;
    #[allow(static_mut_refs)]
    fn t() -> Float { let v: u8 = kani::any(); kani::assume(v <= unsafe { RANGE }); v as Float }
    /// forward replay (the contract of update_schedules, U03a): arrive, wait for the window, serve, drive on.
    /// returns true iff every job activity is reached within its window
    fn replay<const N: usize>(m: &M, acts: &mut [Activity; N], dep0: Float) -> bool {
        let (mut loc, mut dep, mut ok) = (acts[0].place.location, dep0, true);
        // is_valid() for the depot activity (Tour::new / create_start_activity + update_route_departure): its window is the
        // vehicle's [earliest, latest] departure interval, its arrival stays at `earliest`, only its departure moves
        acts[0].schedule = Schedule { arrival: acts[0].place.time.start, departure: dep0 };
        let mut k = 1;
        while k < N {
            let arr = dep + m.dur[loc][acts[k].place.location];
            let d = (if arr > acts[k].place.time.start { arr } else { acts[k].place.time.start }) + acts[k].place.duration;
            acts[k].schedule = Schedule { arrival: arr, departure: d };
            ok = ok && arr <= acts[k].place.time.end;
            loc = acts[k].place.location; dep = d; k += 1;
        }
        ok
    }
    fn any_tour<const N: usize>() -> (M, [Activity; N], Float, Option<Float>) {
        let mut m = M { dur: [[0.; 4]; 4] };
        let mut i = 0;
        while i < 4 { let mut j = 0; while j < 4 { if i != j { m.dur[i][j] = t(); } j += 1; } i += 1; }
        let acts: [Activity; N] = core::array::from_fn(|k| {
            let (s, e) = (t(), t());
            kani::assume(s <= e);
            Activity { place: Place { idx: 0, location: k % 4, duration: if k == 0 { 0. } else { t() }, time: TimeWindow { start: s, end: e } }, schedule: Schedule { arrival: 0., departure: 0. } }
        });
        let dep0 = t();
        let latest = if kani::any() { Some(t()) } else { None };
        let mut acts = acts;
        acts[0].place.time = TimeWindow { start: 0., end: latest.unwrap_or(Float::MAX) };   // depot window = [earliest = 0, latest]
        (m, acts, dep0, latest)
    }
    fn ctx<const N: usize>(acts: &[Activity; N], earliest: Option<Float>, latest: Option<Float>, state: RouteState) -> RouteContext {
        let actor = Arc::new(Actor { detail: ActorDetail { start: Some(VehiclePlace { location: 0, time: TimeInterval { earliest, latest } }), end: None, time: TimeWindow { start: 0., end: Float::MAX } } });
        RouteContext { route: Route { actor, tour: Tour { activities: acts.to_vec() } }, state }
    }

    /// C04/C01: advancing the departure of a feasible tour to the returned time leaves every activity inside its time
    /// window, does not pass the latest allowed departure, and is a genuine advance
    fn advance<const N: usize>(whole: bool) {
        let (m, mut acts, dep0, latest) = any_tour::<N>();
        kani::assume(replay(&m, &mut acts, dep0));                       // the parent solution is feasible
        kani::assume(latest.map_or(true, |l| dep0 <= l));
        let rc = ctx(&acts, Some(0.), latest, RouteState { latest_arrival: vec![], total_duration: None, limit_duration: None });
        let r = try_advance_departure_time(&rc, &m, whole);
        if let Some(new_dep) = r {
            assert!(new_dep > dep0, "post_advance_is_a_genuine_advance");
            assert!(latest.map_or(true, |l| new_dep <= l), "post_advance_respects_latest_allowed_departure");
            assert!(replay(&m, &mut acts, new_dep), "post_advanced_tour_keeps_every_time_window");
        }
        kani::cover!(r.is_some());
        kani::cover!(r.is_none());
    }
    /// C04/C01: moving the departure EARLIER to the returned time never goes before the earliest allowed departure, keeps
    /// every time window (arrivals only get earlier) and keeps the tour duration within its limit (given it was before)
    #[kani::proof] #[kani::unwind(6)]
    fn recede_keeps_windows_and_duration_limit() {
        unsafe { RANGE = 15; }
        let (m, mut acts, dep0, _latest) = any_tour::<3>();
        let earliest = t();
        kani::assume(earliest <= dep0);
        acts[0].place.time = TimeWindow { start: earliest, end: Float::MAX };
        kani::assume(replay(&m, &mut acts, dep0));
        let total = acts[2].schedule.departure - dep0;
        let limit: Option<Float> = if kani::any() { Some({ let v: u8 = kani::any(); v as Float }) } else { None };
        kani::assume(limit.map_or(true, |l| total <= l));
        // cached latest arrival at the first job (backward recurrence, U03a/L06): any arrival up to it keeps the rest feasible
        let la2 = acts[2].place.time.end;
        let la1 = { let x = la2 - m.dur[acts[1].place.location][acts[2].place.location] - acts[1].place.duration; if acts[1].place.time.end < x { acts[1].place.time.end } else { x } };
        let actor = Arc::new(Actor { detail: ActorDetail { start: Some(VehiclePlace { location: 0, time: TimeInterval { earliest: Some(earliest), latest: None } }), end: None, time: TimeWindow { start: earliest, end: Float::MAX } } });
        let rc = RouteContext { route: Route { actor, tour: Tour { activities: acts.to_vec() } }, state: RouteState { latest_arrival: vec![0., la1, la2], total_duration: Some(total), limit_duration: limit } };
        let r = try_recede_departure_time(&rc);
        if let Some(new_dep) = r {
            assert!(new_dep < dep0, "post_recede_is_a_genuine_move_backwards");
            assert!(new_dep >= earliest, "post_recede_respects_earliest_allowed_departure");
            assert!(replay(&m, &mut acts, new_dep), "post_receded_tour_keeps_every_time_window");
            let new_total = acts[2].schedule.departure - new_dep;
            assert!(limit.map_or(true, |l| new_total <= l), "post_receded_tour_keeps_duration_limit");
        }
        kani::cover!(r.is_some() && limit.is_some());
        kani::cover!(r.is_none());
    }
    #[kani::proof] #[kani::unwind(6)] fn advance_whole_tour_2_jobs() { unsafe { RANGE = 15; } advance::<3>(true) }
    #[kani::proof] #[kani::unwind(6)] fn advance_first_leg_2_jobs() { advance::<3>(false) }
    #[kani::proof] #[kani::unwind(7)] fn advance_whole_tour_3_jobs() { unsafe { RANGE = 7; } advance::<4>(true) }
    #[kani::proof] #[kani::unwind(5)] fn advance_whole_tour_1_job() { advance::<2>(true) }
}
