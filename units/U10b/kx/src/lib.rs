// U10b – job validation rules E1101, E1103, E1105, E1106, E1107 (verbatim) over a string-free stub of the pragmatic model
#![allow(dead_code, unused_macros, unused_variables, unused_imports)]
macro_rules! format { ($($t:tt)*) => { String::new() } } // message text dropped (the error CODE is what the property speaks about)

// ------------------------------------------------------------------ environment (assumed)
/// the `times` list of a place is an opaque token that carries the verdict of check_raw_time_windows
/// (that helper's own contract is unit U10a; RFC3339 parsing is outside the technique)
#[derive(Clone)] pub struct Tws { pub valid: bool }
#[derive(Clone)] pub struct JobPlace { pub duration: f64, pub times: Option<Tws> }
#[derive(Clone)] pub struct JobTask { pub places: Vec<JobPlace>, pub demand: Option<Vec<i32>> }
/// real: id: String (ids only flow into the dropped message text)
#[derive(Clone)] pub struct Job { pub id: u8, pub pickups: Option<Vec<JobTask>>, pub deliveries: Option<Vec<JobTask>>, pub replacements: Option<Vec<JobTask>>, pub services: Option<Vec<JobTask>> }
pub struct Plan { pub jobs: Vec<Job> }
pub struct Problem { pub plan: Plan }
/// real: FormatError { code: String, cause: String, action: String, details: Option<String> }; only the code is kept
pub struct FormatError { pub code: [u8; 5] }
impl FormatError { pub fn new(code: String, _cause: String, _action: String) -> Self { let b = code.as_bytes(); Self { code: [b[0], b[1], b[2], b[3], b[4]] } } }
pub struct ValidationContext<'a> { pub problem: &'a Problem }
pub fn check_raw_time_windows(tws: &Tws, _skip_intersection_check: bool) -> bool { tws.valid }

// ------------------------------------------------------------------ code under contract (verbatim from /repo)
impl<'a> ValidationContext<'a> {
//@extract vrp-pragmatic/src/validation/mod.rs :: impl<'a> ValidationContext<'a>/fn jobs
//@end
//@extract vrp-pragmatic/src/validation/mod.rs :: impl<'a> ValidationContext<'a>/fn tasks
//@end
}
//@extract vrp-pragmatic/src/validation/jobs.rs :: fn check_e1101_correct_job_types_demand
//@end
//@extract vrp-pragmatic/src/validation/jobs.rs :: fn check_e1103_time_window_correctness
//@end
//@extract vrp-pragmatic/src/validation/jobs.rs :: fn check_e1105_empty_jobs
//@end
//@extract vrp-pragmatic/src/validation/jobs.rs :: fn check_e1106_negative_duration
//@end
//@extract vrp-pragmatic/src/validation/jobs.rs :: fn check_e1107_negative_demand
//@end

// ------------------------------------------------------------------ contract harnesses
#[cfg(kani)]
mod h {
    use super::*;
    /// a symbolic task: kind (0 pickup, 1 delivery, 2 replacement, 3 service), window validity, duration, optional 1-dim demand
    #[derive(Clone, Copy)]
    struct T { kind: u8, has_times: bool, valid: bool, dur: f64, has_demand: bool, dem: i32 }
    fn any_t() -> T {
        let t = T { kind: kani::any(), has_times: kani::any(), valid: kani::any(), dur: kani::any(), has_demand: kani::any(), dem: kani::any() };
        kani::assume(t.kind < 4 && t.dur.is_finite());
        t
    }
    fn mk(t: &T) -> JobTask {
        JobTask { places: vec![JobPlace { duration: t.dur, times: if t.has_times { Some(Tws { valid: t.valid }) } else { None } }], demand: if t.has_demand { Some(vec![t.dem]) } else { None } }
    }
    /// one job made of N symbolic tasks, grouped by kind like the JSON document groups them
    fn problem<const N: usize>(ts: &[T; N]) -> Problem {
        // constant-shaped construction (every vector has a constant length on every branch)
        let of = |k: u8| -> Option<Vec<JobTask>> {
            match N {
                0 => None,
                1 => if ts[0].kind == k { Some(vec![mk(&ts[0])]) } else { None },
                _ => match (ts[0].kind == k, ts[1].kind == k) {
                    (true, true) => Some(vec![mk(&ts[0]), mk(&ts[1])]),
                    (true, false) => Some(vec![mk(&ts[0])]),
                    (false, true) => Some(vec![mk(&ts[1])]),
                    _ => None,
                },
            }
        };
        Problem { plan: Plan { jobs: vec![Job { id: 1, pickups: of(0), deliveries: of(1), replacements: of(2), services: of(3) }] } }
    }
    fn verdict(r: Result<(), FormatError>, code: &str, expected_err: bool, what: &'static str) {
        match r {
            Ok(()) => assert!(!expected_err, "post_rule_rejects_when_documented_predicate_is_broken"),
            Err(e) => {
                assert!(expected_err, "post_rule_accepts_when_documented_predicate_holds");
                let c = code.as_bytes();
                assert!(e.code[0] == c[0] && e.code[1] == c[1] && e.code[2] == c[2] && e.code[3] == c[3] && e.code[4] == c[4], "post_reported_code_names_the_rule");
            }
        }
    }
    fn run<const N: usize>(rule: u16) {
        let ts: [T; N] = core::array::from_fn(|_| any_t());
        let p = problem(&ts);
        let ctx = ValidationContext { problem: &p };
        let any = |f: fn(&T) -> bool| { let mut r = false; let mut i = 0; while i < N { r = r || f(&ts[i]); i += 1; } r };
        match rule {
            // E1101: pickups, deliveries, replacements must have a demand; services must not
            1101 => verdict(check_e1101_correct_job_types_demand(&ctx), "E1101", any(|t| if t.kind == 3 { t.has_demand } else { !t.has_demand }), "E1101"),
            // E1103: every task place that has time windows has valid ones - whatever the task kind
            1103 => verdict(check_e1103_time_window_correctness(&ctx), "E1103", any(|t| t.has_times && !t.valid), "E1103"),
            // E1105: a job has at least one task
            1105 => verdict(check_e1105_empty_jobs(&ctx), "E1105", N == 0, "E1105"),
            // E1106: no negative duration (-0.0 left unspecified)
            1106 => { let r = check_e1106_negative_duration(&ctx); if any(|t| t.dur < 0.) { verdict(r, "E1106", true, "E1106"); } else if !any(|t| t.dur == 0. && t.dur.is_sign_negative()) { verdict(r, "E1106", false, "E1106"); } }
            // E1107: no negative demand in any dimension
            _ => verdict(check_e1107_negative_demand(&ctx), "E1107", any(|t| t.has_demand && t.dem < 0), "E1107"),
        }
    }
    #[kani::proof] #[kani::unwind(3)] fn e1101_demand_by_task_kind_1() { run::<1>(1101) }
    #[kani::proof] #[kani::unwind(3)] fn e1103_flags_every_task_kind_1() { run::<1>(1103) }
    #[kani::proof] #[kani::unwind(3)] fn e1105_empty_job_0() { run::<0>(1105) }
    #[kani::proof] #[kani::unwind(3)] fn e1105_empty_job_1() { run::<1>(1105) }
    #[kani::proof] #[kani::unwind(3)] fn e1106_negative_duration_1() { run::<1>(1106) }
    #[kani::proof] #[kani::unwind(3)] fn e1107_negative_demand_1() { run::<1>(1107) }
    #[kani::proof] #[kani::unwind(4)] fn e1101_demand_by_task_kind_2() { run::<2>(1101) }
    #[kani::proof] #[kani::unwind(4)] fn e1103_flags_every_task_kind_2() { run::<2>(1103) }
    #[kani::proof] #[kani::unwind(4)] fn e1106_negative_duration_2() { run::<2>(1106) }
    #[kani::proof] #[kani::unwind(4)] fn e1107_negative_demand_2() { run::<2>(1107) }
}
