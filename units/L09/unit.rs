// L09 – lexicographic comparison of zero-padded sequences over a total preorder is a total preorder (any lengths).
// Ties the per-component contract of U09a (InsertionCost::cmp == lexicographic total_cmp with +0.0 padding) and of
// U09b (Goal::total_order == lexicographic comparison of fitness) to the order laws of property C09.
use vstd::prelude::*;
verus! {

// component comparison: an arbitrary total preorder given by a rank into int (models f64::total_cmp on non-NaN bit patterns)
pub uninterp spec fn rank(x: int) -> int;

pub open spec fn at(s: Seq<int>, i: int) -> int { if 0 <= i < s.len() { s[i] } else { 0 } }   // missing trailing component counts as zero

// lexicographic comparison from position i up to n (n >= both lengths): -1, 0, 1
pub open spec fn lex(x: Seq<int>, y: Seq<int>, i: int, n: int) -> int
    decreases n - i
{
    if i >= n { 0 }
    else if rank(at(x, i)) < rank(at(y, i)) { -1 }
    else if rank(at(x, i)) > rank(at(y, i)) { 1 }
    else { lex(x, y, i + 1, n) }
}

pub proof fn lex_refl(x: Seq<int>, i: int, n: int)
    ensures lex(x, x, i, n) == 0
    decreases n - i
{ if i < n { lex_refl(x, i + 1, n); } }

pub proof fn lex_antisym(x: Seq<int>, y: Seq<int>, i: int, n: int)
    ensures lex(x, y, i, n) == -lex(y, x, i, n)
    decreases n - i
{ if i < n { lex_antisym(x, y, i + 1, n); } }

pub proof fn lex_trans(x: Seq<int>, y: Seq<int>, z: Seq<int>, i: int, n: int)
    requires lex(x, y, i, n) <= 0, lex(y, z, i, n) <= 0
    ensures lex(x, z, i, n) <= 0,
            (lex(x, y, i, n) < 0 || lex(y, z, i, n) < 0) ==> lex(x, z, i, n) < 0
    decreases n - i
{ if i < n { if rank(at(x, i)) == rank(at(y, i)) && rank(at(y, i)) == rank(at(z, i)) { lex_trans(x, y, z, i + 1, n); } } }

pub proof fn lex_total(x: Seq<int>, y: Seq<int>, i: int, n: int)
    ensures lex(x, y, i, n) == -1 || lex(x, y, i, n) == 0 || lex(x, y, i, n) == 1
    decreases n - i
{ if i < n { lex_total(x, y, i + 1, n); } }

// padding-independence: any n beyond both lengths gives the same answer
pub proof fn lex_pad(x: Seq<int>, y: Seq<int>, i: int, n: int, m: int)
    requires n >= x.len(), n >= y.len(), m >= n, 0 <= i
    ensures lex(x, y, i, n) == lex(x, y, i, m)
    decreases m - i
{
    if i < n { lex_pad(x, y, i + 1, n, m); }
    else if i < m { lex_pad(x, y, i + 1, n, m); }
}

// vacuity guard: must be REJECTED (the order is not trivial)
pub proof fn vacuity_lex_not_constant(x: Seq<int>, y: Seq<int>)
    requires x.len() == 1, y.len() == 1,
{ assert(lex(x, y, 0, 1) == 0); }

} // verus!
fn main() {}
