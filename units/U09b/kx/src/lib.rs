// U09b – Goal::total_order / Goal::fitness with single-objective layers built by GoalBuilder::add_single (verbatim) and a
// multi-objective layer built by add_multi + dominance_order (verbatim)
#![allow(dead_code, unused_variables, unused_imports)]
use std::cmp::Ordering;
use std::ops::ControlFlow;
use std::sync::Arc;

// ------------------------------------------------------------------ environment (assumed)
pub type Float = f64;
pub type Cost = f64;
pub struct GenericError;
impl From<&str> for GenericError { fn from(_: &str) -> Self { GenericError } }
pub type GenericResult<T> = Result<T, GenericError>;
/// a solution is an index into the symbolic fitness tables of the stub objectives
pub struct InsertionContext { pub id: usize }
pub struct MoveContext<'a> { pub tag: &'a u8 }
pub trait FeatureObjective: Send + Sync { fn fitness(&self, solution: &InsertionContext) -> Cost; fn estimate(&self, move_ctx: &MoveContext<'_>) -> Cost; }
/// insertion cost vector: only its construction from the per-layer estimates is exercised (the real one: U09a)
pub struct InsertionCost(pub Vec<Cost>);
impl FromIterator<Cost> for InsertionCost { fn from_iter<T: IntoIterator<Item = Cost>>(iter: T) -> Self { InsertionCost(iter.into_iter().collect()) } }

// ------------------------------------------------------------------ code under contract (verbatim from /repo)
//@extract rosomaxa/src/utils/types.rs :: trait UnwrapValue
//@end
//@extract rosomaxa/src/utils/types.rs :: impl<T> UnwrapValue for ControlFlow<T, T>
//@end
//@extract rosomaxa/src/evolution/objectives.rs :: fn dominance_order
//@end
//@extract vrp-core/src/models/goal.rs :: type TotalOrderFn
//@end
//@extract vrp-core/src/models/goal.rs :: type CostEstimateFn
//@end
//@extract vrp-core/src/models/goal.rs :: type ObjectiveLayer
//@end
//@extract vrp-core/src/models/goal.rs :: struct Goal
//@end
//@extract vrp-core/src/models/goal.rs :: impl Goal#2
//@end
//@extract vrp-core/src/models/goal.rs :: struct GoalBuilder
//@end
//@extract vrp-core/src/models/goal.rs :: impl GoalBuilder
//@end

#[cfg(kani)]
mod h {
    use super::*;
    struct O { f: [Cost; 3] }
    impl FeatureObjective for O { fn fitness(&self, s: &InsertionContext) -> Cost { self.f[s.id] } fn estimate(&self, _: &MoveContext<'_>) -> Cost { 0. } }
    /// fitness values: small integers of either sign, and both zeros (the property: +0 and -0 compare equal)
    fn val() -> Cost { let v: i8 = kani::any(); kani::assume(v >= -1 && v <= 1); if v == 0 && kani::any() { -0.0 } else { v as Cost } }
    fn cmp1(a: Cost, b: Cost) -> Ordering { if a == 0. && b == 0. { Ordering::Equal } else { a.total_cmp(&b) } }

    /// C09: for goals built from single-objective layers, total_order is the lexicographic comparison of the reported
    /// fitness vector with +0 == -0; it is reflexive, antisymmetric and transitive on the triple
    #[kani::proof] #[kani::unwind(5)]
    fn total_order_is_lex_of_fitness_two_layers() {
        let (o1, o2) = (O { f: [val(), val(), val()] }, O { f: [val(), val(), val()] });
        let (f1, f2) = (o1.f, o2.f);
        let Ok(goal) = GoalBuilder::default().add_single(Arc::new(o1)).add_single(Arc::new(o2)).build() else { panic!("post_goal_with_layers_builds") };
        let (a, b, c) = (InsertionContext { id: 0 }, InsertionContext { id: 1 }, InsertionContext { id: 2 });
        let lex = |x: usize, y: usize| { let r = cmp1(f1[x], f1[y]); if r != Ordering::Equal { r } else { cmp1(f2[x], f2[y]) } };
        assert!(goal.total_order(&a, &b) == lex(0, 1), "post_total_order_is_lexicographic_comparison_of_fitness");
        assert!(goal.total_order(&a, &a) == Ordering::Equal, "post_total_order_reflexive");
        assert!(goal.total_order(&b, &a) == goal.total_order(&a, &b).reverse(), "post_total_order_antisymmetric");
        if goal.total_order(&a, &b) != Ordering::Greater && goal.total_order(&b, &c) != Ordering::Greater { assert!(goal.total_order(&a, &c) != Ordering::Greater, "post_total_order_transitive"); }
        let fit: Vec<Float> = goal.fitness(&b).collect();
        assert!(fit.len() == 2 && fit[0].to_bits() == f1[1].to_bits() && fit[1].to_bits() == f2[1].to_bits(), "post_fitness_reports_objective_values_in_layer_order");
        kani::cover!(f1[0] == 0. && f1[1] == 0. && f1[0].to_bits() != f1[1].to_bits() && lex(0, 1) == Ordering::Less);
    }

    #[kani::proof]
    fn empty_goal_is_rejected() { assert!(GoalBuilder::default().build().is_err(), "post_goal_without_objectives_is_rejected"); }
}
