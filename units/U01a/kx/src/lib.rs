// U01a – time-window / shift-time gate: TransportConstraint::evaluate_activity + SimpleActivityCost estimates (verbatim)
// in a stub environment (plain structs with the same field / accessor names, 3x3 matrix transport).
#![allow(dead_code, unused_variables, unused_imports)]
use std::sync::Arc;

// ------------------------------------------------------------------ environment (assumed surroundings, NOT under proof)
pub type Float = f64;
pub type Timestamp = f64;
pub type Duration = f64;
pub type Location = usize;
#[derive(Clone, Copy, Debug, PartialEq, Eq)]
pub struct ViolationCode(pub i32);
/// mirrors models/goal.rs `ConstraintViolation` and its constructors
#[derive(Clone, Debug, PartialEq, Eq)]
pub struct ConstraintViolation { pub code: ViolationCode, pub stopped: bool }
impl ConstraintViolation {
    pub fn fail(code: ViolationCode) -> Option<Self> { Some(Self { code, stopped: true }) }
    pub fn skip(code: ViolationCode) -> Option<Self> { Some(Self { code, stopped: false }) }
    pub fn success() -> Option<Self> { None }
}
#[derive(Clone, Copy)]
pub enum TravelTime { Arrival(Timestamp), Departure(Timestamp) }
#[derive(Clone)]
pub struct TimeWindow { pub start: Timestamp, pub end: Timestamp }
#[derive(Clone)]
pub struct Schedule { pub arrival: Timestamp, pub departure: Timestamp }
#[derive(Clone)]
pub struct Place { pub idx: usize, pub location: Location, pub duration: Duration, pub time: TimeWindow }
pub struct Activity { pub place: Place, pub schedule: Schedule }
pub struct ActorDetail { pub time: TimeWindow }
pub struct Actor { pub detail: ActorDetail }
pub struct Route { pub actor: Arc<Actor> }
/// cached latest-arrival vector (real: RouteState type map; its meaning is unit U03a/U05b)
pub struct RouteState { pub latest_arrival: Vec<Timestamp> }
impl RouteState { pub fn get_latest_arrival_at(&self, idx: usize) -> Option<&Timestamp> { self.latest_arrival.get(idx) } }
pub struct RouteContext { pub route: Route, pub state: RouteState }
impl RouteContext {
    pub fn route(&self) -> &Route { &self.route }
    pub fn state(&self) -> &RouteState { &self.state }
}
pub struct ActivityContext<'a> { pub index: usize, pub prev: &'a Activity, pub target: &'a Activity, pub next: Option<&'a Activity> }
/// time-independent matrix transport (real: Arc<dyn TransportCost>; look-ups are unit U16a)
pub struct Transport { pub m: [[Float; 3]; 3] }
impl Transport {
    pub fn duration(&self, _: &Route, from: Location, to: Location, _: TravelTime) -> Duration { self.m[from][to] }
}
pub trait ActivityCost {
    fn estimate_departure(&self, route: &Route, activity: &Activity, arrival: Timestamp) -> Timestamp;
    fn estimate_arrival(&self, route: &Route, activity: &Activity, departure: Timestamp) -> Timestamp;
}
pub struct SimpleActivityCost {}
pub struct TransportConstraint { pub transport: Transport, pub activity: SimpleActivityCost, pub time_window_code: ViolationCode }

// ------------------------------------------------------------------ code under contract (verbatim from /repo)
//@extract vrp-core/src/models/problem/costs.rs :: impl ActivityCost for SimpleActivityCost
//@end

impl TransportConstraint {
//@extract vrp-core/src/construction/features/transport.rs :: impl TransportConstraint/fn evaluate_activity
//@end
}

// ------------------------------------------------------------------ contract harnesses
#[cfg(kani)]
mod h {
    use super::*;

    /// one symbolic evaluation: (gate result, step simulation of the inserted leg as the property states it)
    struct Case { r: Option<ConstraintViolation>, has_next: bool, shift_ok: bool, sim_ok: bool, consistent: bool, open_strict_ok: bool, arr_t: Float, te: Float, td: Float }

    fn run(t: fn() -> Float) -> Case {
        let shift_end = t();
        let m = [[0., t(), t()], [t(), 0., t()], [t(), t(), 0.]];
        let (d_pt, d_tn, d_pn) = (m[0][1], m[1][2], m[0][2]);
        let c = TransportConstraint { transport: Transport { m }, activity: SimpleActivityCost {}, time_window_code: ViolationCode(1) };
        let latest_next = t();
        let has_state: bool = kani::any();
        let route_ctx = RouteContext {
            route: Route { actor: Arc::new(Actor { detail: ActorDetail { time: TimeWindow { start: 0., end: shift_end } } }) },
            state: RouteState { latest_arrival: if has_state { vec![0., latest_next] } else { vec![] } },
        };
        let dep = t();
        let act = |loc: usize, tw: (Float, Float), dur: Float, dep: Float| Activity {
            place: Place { idx: 0, location: loc, duration: dur, time: TimeWindow { start: tw.0, end: tw.1 } },
            schedule: Schedule { arrival: dep, departure: dep },
        };
        let (ps, pe) = (t(), t());
        let prev = act(0, (ps, pe), 0., dep);
        let (ts, te, td) = (t(), t(), t());
        kani::assume(ts <= te); // is_valid(): a time window is not inverted (validation rule E1103 / U10a)
        let target = act(1, (ts, te), td, 0.);
        let (ns, ne) = (t(), t());
        let next = act(2, (ns, ne), 0., 0.);
        let has_next: bool = kani::any();
        let activity_ctx = ActivityContext { index: 0, prev: &prev, target: &target, next: if has_next { Some(&next) } else { None } };

        let r = c.evaluate_activity(&route_ctx, &activity_ctx);

        // step simulation of prev -> target -> next, written from the property, not from the gate's algebra
        let limit_next = if has_state { latest_next } else { ne };
        let arr_t = dep + d_pt;                                  // drive to the target
        let start_service = arr_t.max(ts);                       // wait for the window to open
        let leave_t = start_service + td;                        // serve
        let arr_n = leave_t + d_tn;                              // drive on
        let shift_ok = ps <= shift_end && ts <= shift_end && (!has_next || ns <= shift_end);
        let sim_ok = if has_next { arr_t <= te && arr_n <= limit_next } else { arr_t <= te && arr_t <= shift_end };
        let consistent = !has_next || dep + d_pn <= limit_next; // the tour before the insertion is feasible at `next`
        let open_strict_ok = leave_t <= te.min(shift_end);
        Case { r, has_next, shift_ok, sim_ok, consistent, open_strict_ok, arr_t, te, td }
    }

    /// exact domain: integer-valued times 0..65535 (float arithmetic on them is exact)
    fn t_u16() -> Float { let v: u16 = kani::any(); v as Float }
    /// full domain of the pragmatic format: finite, 0 <= t <= 1e9 (unix seconds)
    fn t_f64() -> Float { let v: Float = kani::any(); kani::assume(v >= 0. && v <= 1e9); v }

    fn sound(c: &Case) {
        if c.r.is_none() {
            assert!(c.shift_ok, "post_accept_implies_shift_window_respected");
            assert!(c.sim_ok, "post_accept_implies_leg_simulation_feasible");
        }
        if let Some(v) = &c.r { assert!(v.code == ViolationCode(1), "post_violation_carries_time_window_code"); }
        kani::cover!(c.r.is_none() && c.has_next);
        kani::cover!(c.r.is_none() && !c.has_next);
        kani::cover!(c.r.is_some());
    }

    /// soundness (C01, C06): gate says OK => the inserted leg is feasible step by step
    #[kani::proof]
    fn gate_sound_u16() { sound(&run(t_u16)); }
    #[kani::proof]
    fn gate_sound_f64() { sound(&run(t_f64)); }

    /// converse (C06, exhaustive mode) for a mid-tour / closed-tour position, on the exact domain only:
    /// feasible leg in a consistent tour => gate says OK
    #[kani::proof]
    fn gate_converse_with_next_u16() {
        let c = run(t_u16);
        kani::assume(c.has_next);
        if c.sim_ok && c.shift_ok && c.consistent { assert!(c.r.is_none(), "post_feasible_leg_is_accepted"); }
        kani::cover!(c.sim_ok && c.shift_ok && c.consistent);
    }

    /// converse for the open end under the stricter premise the code actually implements
    /// (service must *complete* before min(tw.end, shift.end))
    #[kani::proof]
    fn gate_converse_open_end_strict_u16() {
        let c = run(t_u16);
        kani::assume(!c.has_next);
        if c.sim_ok && c.shift_ok && c.open_strict_ok { assert!(c.r.is_none(), "post_feasible_open_end_leg_is_accepted_strict"); }
        kani::cover!(c.sim_ok && c.shift_ok && c.open_strict_ok);
    }

    /// KNOWN FINDING F5: the converse as the property states it (arrival within the window suffices) fails at the open end
    #[kani::proof]
    fn converse_open_end() {
        let c = run(t_u16);
        kani::assume(!c.has_next);
        kani::assume(c.arr_t <= c.te && c.arr_t + c.td > c.te); // the recorded input class
        if c.sim_ok && c.shift_ok { assert!(c.r.is_none(), "post_feasible_open_end_leg_is_accepted"); }
    }
}
