// U01g – reachability gate (reachable.rs) and job-compatibility gate + cached tag (compatibility.rs), verbatim
#![allow(dead_code, unused_variables, unused_imports)]
use std::sync::Arc;

// ------------------------------------------------------------------ environment (assumed)
/// compatibility class names modelled as small integers (crate-local `String`; extracted text unchanged)
pub type String = u8;
pub type Float = f64;
pub type Timestamp = f64;
pub type Distance = f64;
pub type Location = usize;
#[derive(Clone, Copy, Debug, PartialEq, Eq)] pub struct ViolationCode(pub i32);
#[derive(Clone, Debug, PartialEq, Eq)] pub struct ConstraintViolation { pub code: ViolationCode, pub stopped: bool }
impl ConstraintViolation {
    pub fn fail(code: ViolationCode) -> Option<Self> { Some(Self { code, stopped: true }) }
    pub fn skip(code: ViolationCode) -> Option<Self> { Some(Self { code, stopped: false }) }
}
#[derive(Clone, Copy)] pub enum TravelTime { Arrival(Timestamp), Departure(Timestamp) }
pub struct Schedule { pub arrival: Timestamp, pub departure: Timestamp }
pub struct Place { pub location: Location }
pub struct Activity { pub place: Place, pub schedule: Schedule }
pub struct Dimensions { pub compat: Option<String> }
impl Dimensions { pub fn get_job_compatibility(&self) -> Option<&String> { self.compat.as_ref() } }
pub struct Job { pub dimens: Dimensions }
impl Job { pub fn dimens(&self) -> &Dimensions { &self.dimens } }
pub struct Tour { pub jobs: Vec<Job> }
impl Tour { pub fn jobs(&self) -> impl Iterator<Item = &Job> + '_ { self.jobs.iter() } }
pub struct Route { pub tour: Tour }
#[derive(Default)] pub struct RouteState { pub compat: Option<String> }
impl RouteState {
    pub fn get_current_compatibility(&self) -> Option<&String> { self.compat.as_ref() }
    pub fn set_current_compatibility(&mut self, v: String) { self.compat = Some(v); }
    pub fn remove_current_compatibility(&mut self) -> bool { self.compat.take().is_some() }
}
pub struct RouteContext { pub route: Route, pub state: RouteState, pub stale: bool }
impl RouteContext {
    pub fn route(&self) -> &Route { &self.route }
    pub fn state(&self) -> &RouteState { &self.state }
    pub fn state_mut(&mut self) -> &mut RouteState { self.stale = true; &mut self.state }
}
pub struct SolutionContext { pub routes: Vec<RouteContext> }
pub struct ActivityContext<'a> { pub index: usize, pub prev: &'a Activity, pub target: &'a Activity, pub next: Option<&'a Activity> }
pub enum MoveContext<'a> {
    Route { solution_ctx: &'a SolutionContext, route_ctx: &'a RouteContext, job: &'a Job },
    Activity { solution_ctx: &'a SolutionContext, route_ctx: &'a RouteContext, activity_ctx: &'a ActivityContext<'a> },
}
pub trait TransportCost: Send + Sync { fn distance(&self, route: &Route, from: Location, to: Location, t: TravelTime) -> Distance; }
pub trait FeatureConstraint { fn evaluate(&self, move_ctx: &MoveContext<'_>) -> Option<ConstraintViolation>; fn merge(&self, source: Job, candidate: Job) -> Result<Job, ViolationCode>; }
pub trait FeatureState {
    fn accept_insertion(&self, solution_ctx: &mut SolutionContext, route_index: usize, job: &Job);
    fn accept_route_state(&self, route_ctx: &mut RouteContext);
    fn accept_solution_state(&self, solution_ctx: &mut SolutionContext);
}

// ------------------------------------------------------------------ code under contract (verbatim from /repo)
//@extract vrp-core/src/construction/features/reachable.rs :: struct ReachableConstraint
//@end
//@extract vrp-core/src/construction/features/reachable.rs :: impl FeatureConstraint for ReachableConstraint
//@end
//@extract vrp-core/src/construction/features/compatibility.rs :: struct CompatibilityConstraint
//@end
//@extract vrp-core/src/construction/features/compatibility.rs :: impl FeatureConstraint for CompatibilityConstraint
//@end
//@extract vrp-core/src/construction/features/compatibility.rs :: struct CompatibilityState
//@end
//@extract vrp-core/src/construction/features/compatibility.rs :: impl FeatureState for CompatibilityState
//@end
//@extract vrp-core/src/construction/features/compatibility.rs :: fn get_route_compatibility
//@end

#[cfg(kani)]
mod h {
    use super::*;
    struct M([[Float; 3]; 3]);
    impl TransportCost for M { fn distance(&self, _: &Route, from: Location, to: Location, _: TravelTime) -> Distance { self.0[from][to] } }
    fn act(loc: usize) -> Activity { Activity { place: Place { location: loc }, schedule: Schedule { arrival: 0., departure: kani::any() } } }
    fn route(jobs: Vec<Job>, compat: Option<String>) -> RouteContext { RouteContext { route: Route { tour: Tour { jobs } }, state: RouteState { compat }, stale: false } }

    /// C01 (reachability) / C16 (unreachable entries surface as negative values): an insertion is accepted iff neither new leg
    /// is flagged unreachable (negative distance). Complete: loop-free, every non-NaN f64 distance.
    #[kani::proof]
    fn reachable_gate_exact() {
        let (d_pt, d_tn): (Float, Float) = (kani::any(), kani::any());
        kani::assume(!d_pt.is_nan() && !d_tn.is_nan());
        let m = M([[0., d_pt, 0.], [0., 0., d_tn], [0., 0., 0.]]);
        let c = ReachableConstraint { transport: Arc::new(m), code: ViolationCode(6) };
        let (p, t, n) = (act(0), act(1), act(2));
        let has_next: bool = kani::any();
        let rc = route(vec![], None);
        let sc = SolutionContext { routes: vec![] };
        let actx = ActivityContext { index: 0, prev: &p, target: &t, next: if has_next { Some(&n) } else { None } };
        let r = c.evaluate(&MoveContext::Activity { solution_ctx: &sc, route_ctx: &rc, activity_ctx: &actx });
        assert!(r.is_none() == (d_pt >= 0. && (!has_next || d_tn >= 0.)), "post_accepted_iff_no_new_leg_is_unreachable");
        if let Some(v) = &r { assert!(v.code == ViolationCode(6) && !v.stopped, "post_unreachable_leg_skips_with_the_feature_code"); }
        assert!(c.evaluate(&MoveContext::Route { solution_ctx: &sc, route_ctx: &rc, job: &Job { dimens: Dimensions { compat: None } } }).is_none(), "post_route_level_is_not_restricted");
        kani::cover!(r.is_none() && has_next);
        kani::cover!(r.is_some() && d_pt >= 0.);
    }

    fn any_compat() -> Option<String> { if kani::any() { let c: u8 = kani::any(); kani::assume(c < 3); Some(c) } else { None } }

    /// C01 (compatibility): a job with a compatibility class is accepted for a tour iff the tour has no class yet or the same
    /// one; a job without a class always passes
    #[kani::proof]
    fn compatibility_gate_exact() {
        let (jc, rcmp) = (any_compat(), any_compat());
        let c = CompatibilityConstraint { code: ViolationCode(8) };
        let rc = route(vec![], rcmp);
        let sc = SolutionContext { routes: vec![] };
        let r = c.evaluate(&MoveContext::Route { solution_ctx: &sc, route_ctx: &rc, job: &Job { dimens: Dimensions { compat: jc } } });
        assert!(r.is_none() == (jc.is_none() || rcmp.is_none() || jc == rcmp), "post_compatibility_gate_accepts_iff_classes_agree");
        if let Some(v) = &r { assert!(v.code == ViolationCode(8) && v.stopped, "post_compatibility_violation_stops_with_the_feature_code"); }
    }

    /// C05 (compatibility tag): after accept_route_state the cached class of a tour equals what is recomputed from its jobs
    /// (the class of the first job that has one; none if no job has one), whatever was cached before; after an insertion too
    #[kani::proof] #[kani::unwind(5)]
    fn compatibility_tag_equals_recomputation() {
        let cs = [any_compat(), any_compat()];
        let old = any_compat();
        let mut rc = route(vec![Job { dimens: Dimensions { compat: cs[0] } }, Job { dimens: Dimensions { compat: cs[1] } }], old);
        let via_insertion: bool = kani::any();
        let expected = if cs[0].is_some() { cs[0] } else { cs[1] };
        if via_insertion {
            let mut sc = SolutionContext { routes: vec![rc] };
            let inserted = Job { dimens: Dimensions { compat: cs[1] } };
            CompatibilityState {}.accept_insertion(&mut sc, 0, &inserted);
            // an insertion of a job with a class refreshes the tag; one without a class cannot change it
            if cs[1].is_some() { assert!(sc.routes[0].state.compat == expected, "post_cached_compatibility_equals_recomputation_after_insertion"); }
            else { assert!(sc.routes[0].state.compat == old, "post_insertion_of_unclassified_job_keeps_tag"); }
        } else {
            CompatibilityState {}.accept_route_state(&mut rc);
            assert!(rc.state.compat == expected, "post_cached_compatibility_equals_recomputation");
        }
    }
}
