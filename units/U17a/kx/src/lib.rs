// U17a – density clustering: create_clusters (algorithms/clustering/dbscan.rs, verbatim) against the DBSCAN contract of C17:
// clusters pairwise disjoint, each grown from a core point (>= min_points neighbours, itself included), containing only points
// density-reachable from it, no core point left unclustered, only input points returned.
#![allow(dead_code, unused_macros, unused_variables, unused_imports)]
const VERIF_MAP_CAP: usize = 4;
#[path = "@VERIF_ENV@/collections_fixed_n.rs"]
mod verif_env;
use verif_env::{HashMap, HashSet};
const VERIF_VEC_CAP: usize = 8;
#[path = "@VERIF_ENV@/vec_fixed.rs"]
mod verif_vec;
use verif_vec::Vec;
/// `vec![x]` builds the stand-in Vec
macro_rules! vec { ($($x:expr),* $(,)?) => { [$($x),*].into_iter().collect::<Vec<_>>() } }
use std::hash::Hash;

// ------------------------------------------------------------------ code under contract (verbatim from /repo)
//@extract vrp-core/src/algorithms/clustering/dbscan.rs :: type Cluster
//@end
//@extract vrp-core/src/algorithms/clustering/dbscan.rs :: fn create_clusters
//@end
//@extract vrp-core/src/algorithms/clustering/dbscan.rs :: enum PointType
//@end

#[cfg(kani)]
mod h {
    use super::*;
    const N: usize = 4;
    static POINTS: [u8; N] = [0, 1, 2, 3];

    /// any reflexive, symmetric neighbourhood relation on N points; any min_points
    fn dbscan_contract<const MIN: usize>() {
        let mut adj = [[false; N]; N];
        let mut i = 0; while i < N { adj[i][i] = true; let mut j = i + 1; while j < N { let b: bool = kani::any(); adj[i][j] = b; adj[j][i] = b; j += 1; } i += 1; }
        check::<MIN>(adj);
        kani::cover!(true);
    }
    /// the 64 neighbourhood graphs on 4 points (edge set = bits of a mask), eight per harness (constant data: CBMC executes them
    /// concretely; one unwinding bound serves every loop, so the outer loop is kept short)
    fn dbscan_graphs<const MIN: usize, const BASE: u8>() {
        let mut mask = BASE;
        while mask < BASE + 8 {
            let mut adj = [[false; N]; N];
            let mut bit = 0; let mut i = 0; while i < N { adj[i][i] = true; let mut j = i + 1; while j < N { let b = (mask >> bit) & 1 == 1; adj[i][j] = b; adj[j][i] = b; bit += 1; j += 1; } i += 1; }
            check::<MIN>(adj);
            mask += 1;
        }
        kani::cover!(true);
    }
    fn check<const MIN: usize>(adj: [[bool; N]; N]) {
        let degree = |p: usize| { let mut d = 0; let mut q = 0; while q < N { if adj[p][q] { d += 1; } q += 1; } d };
        let core = |p: usize| degree(p) >= MIN;

        let clusters = create_clusters(POINTS.iter(), MIN, |p: &u8| { let row = adj[*p as usize]; POINTS.iter().filter(move |q| row[**q as usize]) });

        // density-reachability: r[a][b] = b can be reached from core point a through a chain of core points
        let mut r = [[false; N]; N];
        let mut a = 0; while a < N { if core(a) { let mut b = 0; while b < N { r[a][b] = adj[a][b]; b += 1; } } a += 1; }
        let mut k = 0; while k < N { if core(k) { let mut a = 0; while a < N { let mut b = 0; while b < N { if r[a][k] && r[k][b] { r[a][b] = true; } b += 1; } a += 1; } } k += 1; }

        let mut owner = [usize::MAX; N];
        let mut c = 0;
        while c < clusters.len() {
            let cl = &clusters[c];
            assert!(cl.len() >= 1, "post_clusters_are_not_empty");
            let seed = *cl[0] as usize;
            assert!(core(seed), "post_each_cluster_is_grown_from_a_core_point");
            let mut m = 0;
            while m < cl.len() {
                let p = *cl[m] as usize;
                assert!(p < N, "post_only_input_points_are_returned");
                assert!(owner[p] == usize::MAX, "post_clusters_are_pairwise_disjoint_without_repeats");
                owner[p] = c;
                assert!(p == seed || r[seed][p], "post_members_are_density_reachable_from_the_seed");
                m += 1;
            }
            c += 1;
        }
        let mut p = 0; while p < N { if core(p) { assert!(owner[p] != usize::MAX, "post_no_core_point_is_left_unclustered"); } p += 1; }
        // completeness of a cluster: everything density-reachable from the seed is in it
        let mut c = 0;
        while c < clusters.len() { let seed = *clusters[c][0] as usize; let mut p = 0; while p < N { if r[seed][p] { assert!(owner[p] != usize::MAX, "post_density_reachable_points_are_clustered"); } p += 1; } c += 1; }
    }
    #[kani::proof] #[kani::unwind(10)] fn dbscan_contract_min_points_2() { dbscan_contract::<2>() }
    #[kani::proof] #[kani::unwind(10)] fn dbscan_contract_min_points_3() { dbscan_contract::<3>() }
    #[kani::proof] #[kani::unwind(10)] fn dbscan_graphs_00_to_07_min_points_2() { dbscan_graphs::<2, 0>() }
    #[kani::proof] #[kani::unwind(10)] fn dbscan_graphs_08_to_15_min_points_2() { dbscan_graphs::<2, 8>() }
    #[kani::proof] #[kani::unwind(10)] fn dbscan_graphs_16_to_23_min_points_2() { dbscan_graphs::<2, 16>() }
    #[kani::proof] #[kani::unwind(10)] fn dbscan_graphs_24_to_31_min_points_2() { dbscan_graphs::<2, 24>() }
    #[kani::proof] #[kani::unwind(10)] fn dbscan_graphs_32_to_39_min_points_2() { dbscan_graphs::<2, 32>() }
    #[kani::proof] #[kani::unwind(10)] fn dbscan_graphs_40_to_47_min_points_2() { dbscan_graphs::<2, 40>() }
    #[kani::proof] #[kani::unwind(10)] fn dbscan_graphs_48_to_55_min_points_2() { dbscan_graphs::<2, 48>() }
    #[kani::proof] #[kani::unwind(10)] fn dbscan_graphs_56_to_63_min_points_2() { dbscan_graphs::<2, 56>() }
    #[kani::proof] #[kani::unwind(10)] fn dbscan_graphs_00_to_07_min_points_3() { dbscan_graphs::<3, 0>() }
    #[kani::proof] #[kani::unwind(10)] fn dbscan_graphs_08_to_15_min_points_3() { dbscan_graphs::<3, 8>() }
    #[kani::proof] #[kani::unwind(10)] fn dbscan_graphs_16_to_23_min_points_3() { dbscan_graphs::<3, 16>() }
    #[kani::proof] #[kani::unwind(10)] fn dbscan_graphs_24_to_31_min_points_3() { dbscan_graphs::<3, 24>() }
    #[kani::proof] #[kani::unwind(10)] fn dbscan_graphs_32_to_39_min_points_3() { dbscan_graphs::<3, 32>() }
    #[kani::proof] #[kani::unwind(10)] fn dbscan_graphs_40_to_47_min_points_3() { dbscan_graphs::<3, 40>() }
    #[kani::proof] #[kani::unwind(10)] fn dbscan_graphs_48_to_55_min_points_3() { dbscan_graphs::<3, 48>() }
    #[kani::proof] #[kani::unwind(10)] fn dbscan_graphs_56_to_63_min_points_3() { dbscan_graphs::<3, 56>() }
}
