// U09a – InsertionCost: Ord / PartialEq / Add / Sub / Index (verbatim, real tinyvec dependency)
#![allow(dead_code, unused_variables, unused_imports)]
use std::borrow::Borrow;
use std::cmp::Ordering;
use std::fmt::{Debug, Formatter};
use std::ops::{Add, ControlFlow, Index, Sub};
use tinyvec::{TinyVec, TinyVecIterator};

pub type Float = f64;
pub type Cost = Float;

// ------------------------------------------------------------------ code under contract (verbatim from /repo)
//@extract rosomaxa/src/utils/types.rs :: trait UnwrapValue
//@end
//@extract rosomaxa/src/utils/types.rs :: impl<T> UnwrapValue for ControlFlow<T, T>
//@end
//@extract vrp-core/src/construction/heuristics/insertions.rs :: const COST_DIMENSION
//@end
//@extract vrp-core/src/construction/heuristics/insertions.rs :: type CostArray
//@end
//@extract vrp-core/src/construction/heuristics/insertions.rs :: struct InsertionCost
//@end
impl InsertionCost {
//@extract vrp-core/src/construction/heuristics/insertions.rs :: impl InsertionCost/fn new
//@end
//@extract vrp-core/src/construction/heuristics/insertions.rs :: impl InsertionCost/fn iter
//@end
}
//@extract vrp-core/src/construction/heuristics/insertions.rs :: impl FromIterator<Cost> for InsertionCost
//@end
//@extract vrp-core/src/construction/heuristics/insertions.rs :: impl Eq for InsertionCost
//@end
//@extract vrp-core/src/construction/heuristics/insertions.rs :: impl PartialEq for InsertionCost
//@end
//@extract vrp-core/src/construction/heuristics/insertions.rs :: impl PartialOrd for InsertionCost
//@end
//@extract vrp-core/src/construction/heuristics/insertions.rs :: impl Ord for InsertionCost
//@end
//@extract vrp-core/src/construction/heuristics/insertions.rs :: impl<B> Add<B> for &InsertionCost
//@end
//@extract vrp-core/src/construction/heuristics/insertions.rs :: impl<B> Add<B> for InsertionCost
//@end
//@extract vrp-core/src/construction/heuristics/insertions.rs :: impl<B> Sub<B> for &InsertionCost
//@end
//@extract vrp-core/src/construction/heuristics/insertions.rs :: impl<B> Sub<B> for InsertionCost
//@end
//@extract vrp-core/src/construction/heuristics/insertions.rs :: impl Index<usize> for InsertionCost
//@end

// ------------------------------------------------------------------ contract harnesses
#[cfg(kani)]
mod h {
    use super::*;
    const W: usize = 3;
    /// full domain: every non-NaN f64 that is finite (inf - inf inside the real add/sub would be NaN)
    fn val() -> Cost { let v: Cost = kani::any(); kani::assume(v.is_finite()); v }
    /// exactly representable domain: integer-valued, |v| < 2^31
    fn ival() -> Cost { let v: i32 = kani::any(); v as Cost }

    /// specification from the property: lexicographic total_cmp over the vectors padded with +0.0
    fn pad(v: &[Cost]) -> [Cost; W] { core::array::from_fn(|i| if i < v.len() { v[i] } else { 0. }) }
    fn lex(x: [Cost; W], y: [Cost; W]) -> Ordering {
        let mut i = 0;
        while i < W { let c = x[i].total_cmp(&y[i]); if c != Ordering::Equal { return c; } i += 1; }
        Ordering::Equal
    }

    fn order_and_arith(xv: &[Cost], yv: &[Cost]) {
        let (x, y) = (InsertionCost::new(xv), InsertionCost::new(yv));
        let e = lex(pad(xv), pad(yv));
        assert!(x.cmp(&y) == e, "post_cmp_is_lexicographic_total_cmp_with_zero_padding");
        assert!(y.cmp(&x) == e.reverse(), "post_cmp_antisymmetric");
        assert!(x.cmp(&x) == Ordering::Equal, "post_cmp_reflexive");
        assert!((x == y) == (e == Ordering::Equal), "post_eq_iff_cmp_equal");
        assert!(x.partial_cmp(&y) == Some(e), "post_partial_cmp_agrees");
        assert!((x < y) == (e == Ordering::Less) && (x > y) == (e == Ordering::Greater), "post_operators_agree");
        let s: Vec<Cost> = (&x + &y).iter().collect();
        let d: Vec<Cost> = (&x - &y).iter().collect();
        let n = xv.len().max(yv.len());
        assert!(s.len() == n && d.len() == n, "post_add_sub_length_is_max");
        let (px, py) = (pad(xv), pad(yv));
        let mut i = 0;
        while i < n {
            assert!(s[i].to_bits() == (px[i] + py[i]).to_bits() || (px[i] + py[i]).is_nan(), "post_add_elementwise_missing_is_zero");
            assert!(d[i].to_bits() == (px[i] - py[i]).to_bits() || (px[i] - py[i]).is_nan(), "post_sub_elementwise_missing_is_zero");
            i += 1;
        }
        let mut i = 0;
        while i < xv.len() { assert!(x[i].to_bits() == xv[i].to_bits(), "post_index_returns_component"); i += 1; }
    }

    /// add and sub are inverse up to the sign of zero where the arithmetic is exact
    fn add_sub_inverse(xv: &[Cost], yv: &[Cost]) {
        let (x, y) = (InsertionCost::new(xv), InsertionCost::new(yv));
        let back: Vec<Cost> = ((&x + &y) - &y).iter().collect();
        let px = pad(xv);
        let n = xv.len().max(yv.len());
        assert!(back.len() == n, "post_inverse_length");
        let mut i = 0;
        while i < n { assert!(back[i] == px[i], "post_add_then_sub_is_identity_up_to_zero_sign"); i += 1; }
        let again: Vec<Cost> = ((&x - &y) + &y).iter().collect();
        let mut i = 0;
        while i < n { assert!(again[i] == px[i], "post_sub_then_add_is_identity_up_to_zero_sign"); i += 1; }
    }

    macro_rules! cases {
        ($($name:ident, $inv:ident: [$($x:tt),*], [$($y:tt),*];)*) => { $(
            #[kani::proof] #[kani::unwind(8)] fn $name() { order_and_arith(&[$(cases!(@v $x)),*], &[$(cases!(@v $y)),*]); }
            #[kani::proof] #[kani::unwind(8)] fn $inv() { add_sub_inverse(&[$(cases!(@i $x)),*], &[$(cases!(@i $y)),*]); }
        )* };
        (@v $x:tt) => { val() };
        (@i $x:tt) => { ival() };
    }
    cases! {
        cost_0_0, inv_0_0: [], [];
        cost_0_1, inv_0_1: [], [a];
        cost_1_0, inv_1_0: [a], [];
        cost_1_1, inv_1_1: [a], [a];
        cost_0_2, inv_0_2: [], [a, b];
        cost_2_1, inv_2_1: [a, b], [a];
        cost_1_2, inv_1_2: [a], [a, b];
        cost_2_2, inv_2_2: [a, b], [a, b];
        cost_3_1, inv_3_1: [a, b, c], [a];
        cost_2_3, inv_2_3: [a, b], [a, b, c];
        cost_3_3, inv_3_3: [a, b, c], [a, b, c];
    }

    /// transitivity on vectors of length <= 2 (the general statement is lemma L09 over the lexicographic spec)
    #[kani::proof] #[kani::unwind(8)]
    fn cmp_transitive_2() {
        let (x, y, z) = (InsertionCost::new(&[val(), val()]), InsertionCost::new(&[val()]), InsertionCost::new(&[val(), val()]));
        if x.cmp(&y) != Ordering::Greater && y.cmp(&z) != Ordering::Greater { assert!(x.cmp(&z) != Ordering::Greater, "post_cmp_transitive"); }
        kani::cover!(x.cmp(&y) == Ordering::Less && y.cmp(&z) == Ordering::Equal);
    }
}
