// U01h – locked-jobs gate (locked_jobs.rs, verbatim): LockingConstraint::evaluate_route / evaluate_activity and Rule::can_insert.
// A job bound to some vehicles is refused on every other vehicle; a foreign job is let into a tour exactly at the legs where it does
// not break a strictly ordered locked block or move it away from its anchored end
#![allow(dead_code, unused_variables, unused_imports)]
#[path = "@VERIF_ENV@/collections_fixed.rs"]
mod verif_env;
use verif_env::{HashMap, HashSet};
use std::sync::Arc;

// ------------------------------------------------------------------ environment (assumed)
#[derive(Clone, Copy, Debug, PartialEq, Eq)] pub struct ViolationCode(pub i32);
#[derive(Clone, Debug, PartialEq, Eq)] pub struct ConstraintViolation { pub code: ViolationCode, pub stopped: bool }
impl ConstraintViolation {
    pub fn fail(code: ViolationCode) -> Option<Self> { Some(Self { code, stopped: true }) }
    pub fn skip(code: ViolationCode) -> Option<Self> { Some(Self { code, stopped: false }) }
}
/// real: Job compared by identity of its Arc; here by a unique id
#[derive(Clone, Copy, Debug, PartialEq, Eq)] pub struct Job(pub u8);
#[derive(PartialEq, Eq)] pub struct Actor { pub id: u8 }
pub struct Activity { pub job: Option<Job> }
impl Activity { pub fn retrieve_job(&self) -> Option<Job> { self.job } }
pub struct Route { pub actor: Arc<Actor> }
pub struct RouteContext { pub route: Route }
impl RouteContext { pub fn route(&self) -> &Route { &self.route } }
pub struct SolutionContext;
pub struct ActivityContext<'a> { pub index: usize, pub prev: &'a Activity, pub target: &'a Activity, pub next: Option<&'a Activity> }
pub enum MoveContext<'a> {
    Route { solution_ctx: &'a SolutionContext, route_ctx: &'a RouteContext, job: &'a Job },
    Activity { solution_ctx: &'a SolutionContext, route_ctx: &'a RouteContext, activity_ctx: &'a ActivityContext<'a> },
}
pub trait FeatureConstraint { fn evaluate(&self, move_ctx: &MoveContext<'_>) -> Option<ConstraintViolation>; fn merge(&self, source: Job, candidate: Job) -> Result<Job, ViolationCode>; }

// ------------------------------------------------------------------ code under contract (verbatim from /repo)
//@extract vrp-core/src/models/domain.rs :: enum LockPosition
//@end
//@extract vrp-core/src/construction/features/locked_jobs.rs :: type ConditionMap
//@end
//@extract vrp-core/src/construction/features/locked_jobs.rs :: struct LockingConstraint
//@end
//@extract vrp-core/src/construction/features/locked_jobs.rs :: impl LockingConstraint
//@end
//@extract vrp-core/src/construction/features/locked_jobs.rs :: impl FeatureConstraint for LockingConstraint
//@end
//@extract vrp-core/src/construction/features/locked_jobs.rs :: struct JobIndex
//@end
//@extract vrp-core/src/construction/features/locked_jobs.rs :: struct Rule
//@end
//@extract vrp-core/src/construction/features/locked_jobs.rs :: impl Rule
//@end

#[cfg(kani)]
mod h {
    use super::*;
    const CODE: ViolationCode = ViolationCode(7);
    /// a closed tour with N interior activities: jobs 1..=N in tour order, depot (no job) at both ends; the strictly ordered locked
    /// block is the activities a..=b (1 <= a <= b <= N); a foreign job 99 is tried at leg i (between activity i and i+1)
    fn rule(a: usize, b: usize, position: LockPosition) -> Rule {
        let mut jobs = HashSet::default();
        let mut k = a;
        while k <= b { jobs.insert(Job(k as u8)); k += 1; }
        Rule { condition: Arc::new(|_| true), position, index: JobIndex { first: Job(a as u8), last: Job(b as u8), jobs } }
    }
    fn job_at<const N: usize>(i: usize) -> Option<Job> { if i >= 1 && i <= N { Some(Job(i as u8)) } else { None } }
    fn position(p: u8) -> LockPosition { match p { 0 => LockPosition::Any, 1 => LockPosition::Departure, 2 => LockPosition::Arrival, _ => LockPosition::Fixed } }

    /// C01/C04 (pinned jobs stay in their order): a foreign job is let in at leg i exactly when the block stays contiguous and keeps
    /// its anchor: never strictly inside the block; Departure: only behind the block; Arrival: only in front of it; Fixed: nowhere
    fn foreign_job<const N: usize>() {
        let (a, b, i): (usize, usize, usize) = (kani::any(), kani::any(), kani::any());
        kani::assume(1 <= a && a <= b && b <= N && i <= N);
        let p: u8 = kani::any(); kani::assume(p < 4);
        // a Departure block starts right behind the depot, an Arrival block ends right before it (that is what the lock means)
        kani::assume(p != 1 || a == 1);
        kani::assume(p != 2 || b == N);
        let r = rule(a, b, position(p));
        let got = r.can_insert(&Some(Job(99)), &job_at::<N>(i), &job_at::<N>(i + 1));
        let inside = a <= i && i < b;
        let in_front = i < a;
        let behind = i >= b;
        let expected = match p { 0 => in_front || behind, 1 => behind, 2 => in_front, _ => false };
        assert!(got == expected, "post_foreign_job_let_in_exactly_where_the_locked_block_stays_intact");
        assert!(!(got && inside), "post_never_inside_a_strict_block");
        kani::cover!(got); kani::cover!(!got && !inside);
    }
    #[kani::proof] #[kani::unwind(7)] fn locked_block_gate_tour_of_3() { foreign_job::<3>() }
    #[kani::proof] #[kani::unwind(7)] fn locked_block_gate_tour_of_4() { foreign_job::<4>() }
    /// a job of the block itself is never stopped by its own rule (such jobs are placed by the lock's initial route)
    #[kani::proof] #[kani::unwind(7)]
    fn own_jobs_pass() {
        let (a, b, j): (usize, usize, usize) = (kani::any(), kani::any(), kani::any());
        kani::assume(1 <= a && a <= b && b <= 3 && a <= j && j <= b);
        let p: u8 = kani::any(); kani::assume(p < 4);
        let (pi, ni): (usize, usize) = (kani::any(), kani::any()); kani::assume(pi <= 4 && ni <= 4);
        assert!(rule(a, b, position(p)).can_insert(&Some(Job(j as u8)), &job_at::<3>(pi), &job_at::<3>(ni)), "post_jobs_of_the_block_pass_their_own_rule");
    }
    fn constraint(bound_job: Option<Job>, allowed_actor: u8, rules_for: Option<u8>, r: Rule) -> LockingConstraint {
        let mut conditions: ConditionMap = HashMap::default();
        if let Some(j) = bound_job { conditions.insert(j, Arc::new(move |actor: &Actor| actor.id == allowed_actor)); }
        let mut rules = HashMap::default();
        if let Some(id) = rules_for { rules.insert(Arc::new(Actor { id }), vec![Arc::new(r)]); }
        LockingConstraint { code: CODE, conditions, rules }
    }
    /// C01/C04 (pinned jobs stay on their vehicle): route level - a job bound by a lock is refused (stopping the search) on every
    /// vehicle the lock does not name, accepted on the named one; unbound jobs pass
    #[kani::proof] #[kani::unwind(6)]
    fn bound_job_only_on_its_vehicle() {
        let bound: bool = kani::any();
        let (allowed, actual): (u8, u8) = (kani::any(), kani::any());
        kani::assume(allowed < 3 && actual < 3);
        let c = constraint(if bound { Some(Job(5)) } else { None }, allowed, None, rule(1, 1, LockPosition::Any));
        let rc = RouteContext { route: Route { actor: Arc::new(Actor { id: actual }) } };
        let job = Job(5);
        let r = c.evaluate(&MoveContext::Route { solution_ctx: &SolutionContext, route_ctx: &rc, job: &job });
        if bound && allowed != actual { assert!(r == Some(ConstraintViolation { code: CODE, stopped: true }), "post_bound_job_refused_on_other_vehicles"); }
        else { assert!(r.is_none(), "post_job_accepted_on_its_vehicle_or_when_unbound"); }
        // an unrelated job is never affected
        let other = Job(6);
        assert!(c.evaluate(&MoveContext::Route { solution_ctx: &SolutionContext, route_ctx: &rc, job: &other }).is_none(), "post_unbound_job_passes");
    }
    /// activity level: the rules of THIS vehicle decide (skip, not stop); a vehicle without rules accepts
    #[kani::proof] #[kani::unwind(7)]
    fn activity_level_applies_the_rules_of_the_vehicle() {
        let (a, b, i): (usize, usize, usize) = (kani::any(), kani::any(), kani::any());
        kani::assume(1 <= a && a <= b && b <= 3 && i <= 3);
        let rules_for: u8 = kani::any(); kani::assume(rules_for < 2);
        let c = constraint(None, 0, Some(rules_for), rule(a, b, LockPosition::Any));
        let rc = RouteContext { route: Route { actor: Arc::new(Actor { id: 0 }) } };
        let (prev, target, next) = (Activity { job: job_at::<3>(i) }, Activity { job: Some(Job(99)) }, Activity { job: job_at::<3>(i + 1) });
        let actx = ActivityContext { index: i, prev: &prev, target: &target, next: Some(&next) };
        let r = c.evaluate(&MoveContext::Activity { solution_ctx: &SolutionContext, route_ctx: &rc, activity_ctx: &actx });
        let inside = a <= i && i < b;
        if rules_for == 0 && inside { assert!(r == Some(ConstraintViolation { code: CODE, stopped: false }), "post_insertion_inside_a_strict_block_is_skipped"); }
        else { assert!(r.is_none(), "post_insertion_outside_the_block_or_on_a_vehicle_without_rules_is_accepted"); }
        kani::cover!(rules_for == 0 && inside); kani::cover!(rules_for == 1 && inside);
    }
}
