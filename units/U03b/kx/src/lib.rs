// U03b – total cost of a solution (InsertionContext::get_total_cost, verbatim): sum over tours of vehicle and driver
// fixed + per-distance * distance + max(per-time rates) * duration; absent when a tour has no totals
#![allow(dead_code, unused_variables, unused_imports)]
use std::sync::Arc;
pub type Float = f64;
pub type Cost = f64;

// ------------------------------------------------------------------ environment (assumed)
pub struct Costs { pub fixed: Float, pub per_distance: Float, pub per_driving_time: Float, pub per_waiting_time: Float, pub per_service_time: Float }
pub struct Vehicle { pub costs: Costs }
pub struct Driver { pub costs: Costs }
pub struct Actor { pub vehicle: Arc<Vehicle>, pub driver: Arc<Driver> }
pub struct Route { pub actor: Arc<Actor> }
pub struct RouteState { pub total_distance: Option<Float>, pub total_duration: Option<Float> }
impl RouteState {
    pub fn get_total_distance(&self) -> Option<&Float> { self.total_distance.as_ref() }
    pub fn get_total_duration(&self) -> Option<&Float> { self.total_duration.as_ref() }
}
pub struct RouteContext { pub route: Route, pub state: RouteState }
pub struct SolutionContext { pub routes: Vec<RouteContext> }
pub struct InsertionContext { pub solution: SolutionContext }

// ------------------------------------------------------------------ code under contract (verbatim from /repo)
impl InsertionContext {
//@extract vrp-core/src/construction/heuristics/context.rs :: impl InsertionContext/fn get_total_cost
//@end
}

#[cfg(kani)]
mod h {
    use super::*;
    fn c() -> Float { let v: u8 = kani::any(); kani::assume(v <= 15); v as Float }
    fn costs() -> Costs { Costs { fixed: c(), per_distance: c(), per_driving_time: c(), per_waiting_time: c(), per_service_time: c() } }
    fn max3(a: Float, b: Float, c: Float) -> Float { let m = if a >= b { a } else { b }; if m >= c { m } else { c } }
    fn part(k: &Costs, d: Float, t: Float) -> Float { k.fixed + k.per_distance * d + max3(k.per_driving_time, k.per_service_time, k.per_waiting_time) * t }

    /// C03 (cost): total cost = sum over tours of (vehicle part + driver part); None iff some tour lacks its totals
    #[kani::proof] #[kani::unwind(4)]
    fn total_cost_two_tours() {
        let (v0, d0, v1, d1) = (costs(), costs(), costs(), costs());
        let (dist, dur) = ([c(), c()], [c(), c()]);
        let has: [bool; 2] = kani::any();
        let exp0 = part(&v0, dist[0], dur[0]) + part(&d0, dist[0], dur[0]);
        let exp1 = part(&v1, dist[1], dur[1]) + part(&d1, dist[1], dur[1]);
        let rc = |v: Costs, d: Costs, i: usize| RouteContext { route: Route { actor: Arc::new(Actor { vehicle: Arc::new(Vehicle { costs: v }), driver: Arc::new(Driver { costs: d }) }) },
            state: RouteState { total_distance: if has[i] { Some(dist[i]) } else { None }, total_duration: Some(dur[i]) } };
        let ic = InsertionContext { solution: SolutionContext { routes: vec![rc(v0, d0, 0), rc(v1, d1, 1)] } };
        let r = ic.get_total_cost();
        assert!(r.is_some() == (has[0] && has[1]), "post_total_cost_absent_iff_a_tour_lacks_totals");
        if let Some(total) = r { assert!(total == exp0 + exp1, "post_total_cost_is_sum_of_vehicle_and_driver_costs_over_tours"); }
        kani::cover!(r.is_some());
    }
    #[kani::proof] #[kani::unwind(3)]
    fn total_cost_no_tours() { assert!(InsertionContext { solution: SolutionContext { routes: vec![] } }.get_total_cost() == Some(0.), "post_total_cost_of_empty_solution_is_zero"); }
}
