// U06a – insertion evaluator kernel: analyze_insertion_in_route_leg (verbatim) against a table-driven stub goal
#![allow(dead_code, unused_variables, unused_imports)]
use std::ops::ControlFlow;
use std::sync::Arc;

// ------------------------------------------------------------------ environment (assumed surroundings, NOT under proof)
pub type Float = f64;
pub type Timestamp = f64;
pub type Duration = f64;
pub type Location = usize;
pub type Cost = i32;
#[derive(Clone, Copy, Debug, PartialEq, Eq)] pub struct ViolationCode(pub i32);
#[derive(Clone, Debug, PartialEq, Eq)] pub struct ConstraintViolation { pub code: ViolationCode, pub stopped: bool }
#[derive(Clone, Debug, PartialEq)] pub struct TimeWindow { pub start: Timestamp, pub end: Timestamp }
impl TimeWindow { pub fn new(start: Timestamp, end: Timestamp) -> Self { Self { start, end } } }
#[derive(Clone, Debug, PartialEq)] pub struct TimeOffset { pub start: Timestamp, pub end: Timestamp }
#[derive(Clone, Debug, PartialEq)] pub struct Schedule { pub arrival: Timestamp, pub departure: Timestamp }
/// job-side place (models/problem/jobs.rs)
pub mod problem { use super::*; #[derive(Clone)] pub struct Place { pub location: Option<Location>, pub duration: Duration, pub times: Vec<TimeSpan> } }
pub struct Single { pub places: Vec<problem::Place> }
/// activity-side place (models/solution/route.rs)
#[derive(Clone, Debug)] pub struct Place { pub idx: usize, pub location: Location, pub duration: Duration, pub time: TimeWindow }
pub struct Activity { pub place: Place, pub schedule: Schedule }
pub type Leg<'a> = (&'a [Activity], usize);
pub struct Tour { pub activities: Vec<Activity> }
impl Tour { pub fn start(&self) -> Option<&Activity> { self.activities.first() } }
pub struct Route { pub tour: Tour }
pub struct RouteContext { pub route: Route }
impl RouteContext { pub fn route(&self) -> &Route { &self.route } }
pub struct SolutionContext {}
pub struct ActivityContext<'a> { pub index: usize, pub prev: &'a Activity, pub target: &'a Activity, pub next: Option<&'a Activity> }
pub enum MoveContext<'a> { Activity { solution_ctx: &'a SolutionContext, route_ctx: &'a RouteContext, activity_ctx: &'a ActivityContext<'a> } }
impl<'a> MoveContext<'a> {
    pub fn activity(solution_ctx: &'a SolutionContext, route_ctx: &'a RouteContext, activity_ctx: &'a ActivityContext) -> MoveContext<'a> { MoveContext::Activity { solution_ctx, route_ctx, activity_ctx } }
}
/// insertion cost: a one-component stand-in with the same operators (the real lexicographic vector is unit U09a + lemma L09)
#[derive(Clone, Debug, Default, PartialEq, Eq, PartialOrd, Ord)]
pub struct InsertionCost(pub Cost);
impl InsertionCost {
    pub fn max_value() -> &'static Self { static MAX: InsertionCost = InsertionCost(Cost::MAX); &MAX }
}
impl std::ops::Add<&InsertionCost> for InsertionCost { type Output = InsertionCost; fn add(self, rhs: &InsertionCost) -> InsertionCost { InsertionCost(self.0 + rhs.0) } }
/// table-driven goal: the gate verdict and the cost quote of candidate (place idx, time-window idx) are symbolic inputs;
/// the candidate is identified by target.place.idx and by the window start (window k of a place starts at k)
pub const P: usize = 2;
pub const W: usize = 2;
pub struct GoalContext { pub gate: [[Option<ConstraintViolation>; W]; P], pub quote: [[Cost; W]; P], pub log: std::cell::RefCell<Vec<(usize, usize)>> }
impl GoalContext {
    fn key(move_ctx: &MoveContext<'_>) -> (usize, usize) { let MoveContext::Activity { activity_ctx, .. } = move_ctx; (activity_ctx.target.place.idx, activity_ctx.target.place.time.start as usize) }
    pub fn evaluate(&self, move_ctx: &MoveContext<'_>) -> Option<ConstraintViolation> { let (p, w) = Self::key(move_ctx); self.log.borrow_mut().push((p, w)); self.gate[p][w].clone() }
    pub fn estimate(&self, move_ctx: &MoveContext<'_>) -> InsertionCost { let (p, w) = Self::key(move_ctx); InsertionCost(self.quote[p][w]) }
}
pub struct Job {}
pub struct LegSelection {}
pub struct InsertionContext {}
pub struct InsertionResult {}
pub struct EvaluationContext<'a> { pub goal: &'a GoalContext, pub job: &'a Job, pub leg_selection: &'a LegSelection, pub result_selector: &'a (dyn ResultSelector) }
pub struct BestResultSelector {}
impl ResultSelector for BestResultSelector { fn select_insertion(&self, _: &InsertionContext, left: InsertionResult, _right: InsertionResult) -> InsertionResult { left } }

// ------------------------------------------------------------------ code under contract (verbatim from /repo)
//@extract vrp-core/src/utils/types.rs :: enum Either
//@end
//@extract vrp-core/src/models/common/domain.rs :: enum TimeSpan
//@end
impl TimeSpan {
//@extract vrp-core/src/models/common/domain.rs :: impl TimeSpan/fn to_time_window
//@end
}
//@extract vrp-core/src/construction/heuristics/selectors.rs :: trait ResultSelector
//@end
//@extract vrp-core/src/construction/heuristics/evaluators.rs :: struct SingleContext
//@end
//@extract vrp-core/src/construction/heuristics/evaluators.rs :: impl SingleContext
//@end
//@extract vrp-core/src/construction/heuristics/evaluators.rs :: fn analyze_insertion_in_route_leg
//@end

// ------------------------------------------------------------------ contract harness
#[cfg(kani)]
mod h {
    use super::*;
    fn act(loc: usize) -> Activity {
        Activity { place: Place { idx: 0, location: loc, duration: 0., time: TimeWindow { start: 0., end: 1e9 } }, schedule: Schedule { arrival: 0., departure: 5. } }
    }
    fn any_gate() -> Option<ConstraintViolation> { if kani::any() { Some(ConstraintViolation { code: ViolationCode(7), stopped: kani::any() }) } else { None } }

    /// C06 (single-task job, one leg): the kernel returns a place iff some candidate (place, window) of the job passed the
    /// gate before a stopping violation; the place returned is one that passed, its cost is minimal among those that
    /// passed and not worse than the best known cost it was given; nothing after a stopping violation is considered;
    /// a violation is reported when nothing passed
    #[kani::proof] #[kani::unwind(6)]
    fn leg_analysis_matches_sequential_scan() {
        let gate: [[Option<ConstraintViolation>; W]; P] = [[any_gate(), any_gate()], [any_gate(), any_gate()]];
        let quote: [[Cost; W]; P] = core::array::from_fn(|_| core::array::from_fn(|_| { let v: i8 = kani::any(); v as Cost }));
        let goal = GoalContext { gate: gate.clone(), quote, log: Default::default() };
        let route_cost: Cost = { let v: i8 = kani::any(); v as Cost };
        let best_known: Option<Cost> = if kani::any() { Some({ let v: i16 = kani::any(); v as Cost }) } else { None };
        let has_next: bool = kani::any();
        let acts = [act(0), act(3)];
        let leg: Leg = (if has_next { &acts[..] } else { &acts[..1] }, 4);
        // job: P places with W windows each; window k of a place is the absolute window [k, 100+k] or the offset [k, 100+k] from departure 5 -> start encodes k
        let offset: bool = kani::any();
        let span = |k: usize| if offset { TimeSpan::Offset(TimeOffset { start: k as f64 - 5., end: 100. }) } else { TimeSpan::Window(TimeWindow { start: k as f64, end: 100. + k as f64 }) };
        let single = Single { places: vec![problem::Place { location: Some(1), duration: 1., times: vec![span(0), span(1)] },
                                           problem::Place { location: None, duration: 2., times: vec![span(0), span(1)] }] };
        let route_ctx = RouteContext { route: Route { tour: Tour { activities: vec![act(0)] } } };
        let sel = BestResultSelector {};
        let (job, legsel, sol) = (Job {}, LegSelection {}, SolutionContext {});
        let eval_ctx = EvaluationContext { goal: &goal, job: &job, leg_selection: &legsel, result_selector: &sel };
        let mut target = act(9);
        let init = SingleContext::new(best_known.map(InsertionCost), 0);

        let r = analyze_insertion_in_route_leg(&eval_ctx, &sol, &route_ctx, leg, &single, &mut target, InsertionCost(route_cost), init);

        let (out, stopped_early) = match r { ControlFlow::Continue(c) => (c, false), ControlFlow::Break(c) => (c, true) };
        // reference: sequential scan in document order
        let (mut best, mut best_at, mut any_violation, mut stop_at): (Option<Cost>, Option<(usize, usize)>, bool, Option<usize>) = (best_known, None, false, None);
        let mut k = 0;
        while k < P * W {
            let (p, w) = (k / W, k % W);
            match &gate[p][w] {
                Some(v) => { any_violation = true; if v.stopped { stop_at = Some(k); break; } }
                None => { let c = quote[p][w] + route_cost; if best.map_or(true, |b| c < b) { best = Some(c); best_at = Some((p, w)); } }
            }
            k += 1;
        }
        assert!(stopped_early == stop_at.is_some(), "post_break_iff_a_stopping_violation_was_met");
        let log = goal.log.borrow();
        assert!(log.len() == stop_at.map_or(P * W, |s| s + 1), "post_every_candidate_up_to_the_stop_is_evaluated_once_and_none_after");
        match best_at {
            Some((p, w)) => {
                let place = out.place.as_ref().expect("post_a_passing_candidate_yields_a_place");
                assert!(place.idx == p && place.time.start as usize == w, "post_returned_place_is_a_cheapest_passing_candidate");
                assert!(gate[place.idx][place.time.start as usize].is_none(), "post_returned_place_passed_the_gate");
                assert!(out.cost == Some(InsertionCost(best.unwrap())), "post_returned_cost_is_minimal_quote_plus_route_cost");
                assert!(out.index == 4, "post_returned_index_is_the_leg_index");
                assert!(place.location == if p == 0 { 1 } else { 0 } && place.duration == if p == 0 { 1. } else { 2. }, "post_returned_place_carries_the_job_place_data");
            }
            None => {
                assert!(out.place.is_none(), "post_no_place_when_nothing_passed_or_nothing_beat_the_best_known_cost");
                assert!(out.cost == best_known.map(InsertionCost), "post_best_known_cost_kept");
            }
        }
        if best_at.is_none() && any_violation && best_known.is_none() { assert!(out.violation.is_some(), "post_violation_reported_when_nothing_passed"); }
        kani::cover!(best_at.is_some() && stop_at.is_some());
        kani::cover!(best_at == Some((1, 1)));
        kani::cover!(best_at.is_none() && !any_violation);
    }
}
