// U01d – tour size / distance / duration limits: ActivityLimitConstraint, TravelLimitConstraint (tour_limits.rs) and the
// travel-delta helpers (travel_info.rs), verbatim
#![allow(dead_code, unused_variables, unused_imports)]
use std::sync::Arc;

// ------------------------------------------------------------------ environment (assumed)
pub type Float = f64;
pub type Timestamp = f64;
pub type Duration = f64;
pub type Distance = f64;
pub type Location = usize;
#[derive(Clone, Copy, Debug, PartialEq, Eq)] pub struct ViolationCode(pub i32);
#[derive(Clone, Debug, PartialEq, Eq)] pub struct ConstraintViolation { pub code: ViolationCode, pub stopped: bool }
impl ConstraintViolation {
    pub fn fail(code: ViolationCode) -> Option<Self> { Some(Self { code, stopped: true }) }
    pub fn skip(code: ViolationCode) -> Option<Self> { Some(Self { code, stopped: false }) }
    pub fn success() -> Option<Self> { None }
}
#[derive(Clone, Copy)] pub enum TravelTime { Arrival(Timestamp), Departure(Timestamp) }
#[derive(Clone)] pub struct TimeWindow { pub start: Timestamp, pub end: Timestamp }
#[derive(Clone)] pub struct Schedule { pub arrival: Timestamp, pub departure: Timestamp }
#[derive(Clone)] pub struct Place { pub idx: usize, pub location: Location, pub duration: Duration, pub time: TimeWindow }
#[derive(Clone)] pub struct Activity { pub place: Place, pub schedule: Schedule }
pub struct Single {}
pub struct Multi { pub jobs: Vec<Arc<Single>> }
pub enum Job { Single(Arc<Single>), Multi(Arc<Multi>) }
pub struct Actor { pub id: u8 }
/// the tour's counters as the real Tour offers them (related by the representation invariant proved in unit U14a:
/// 1 <= jobs <= job activities when there is any, total = job activities + start (+ end))
pub struct Tour { pub job_activities: usize, pub jobs: usize, pub closed: bool }
impl Tour {
    pub fn job_activity_count(&self) -> usize { self.job_activities }
    pub fn job_count(&self) -> usize { self.jobs }
    pub fn total(&self) -> usize { self.job_activities + if self.closed { 2 } else { 1 } }
    pub fn has_jobs(&self) -> bool { self.jobs > 0 }
}
pub struct Route { pub actor: Arc<Actor>, pub tour: Tour }
pub struct RouteState { pub total_distance: Option<Distance>, pub total_duration: Option<Duration> }
impl RouteState {
    pub fn get_total_distance(&self) -> Option<&Distance> { self.total_distance.as_ref() }
    pub fn get_total_duration(&self) -> Option<&Duration> { self.total_duration.as_ref() }
}
pub struct RouteContext { pub route: Route, pub state: RouteState }
impl RouteContext { pub fn route(&self) -> &Route { &self.route } pub fn state(&self) -> &RouteState { &self.state } }
pub struct SolutionContext {}
pub struct ActivityContext<'a> { pub index: usize, pub prev: &'a Activity, pub target: &'a Activity, pub next: Option<&'a Activity> }
pub enum MoveContext<'a> {
    Route { solution_ctx: &'a SolutionContext, route_ctx: &'a RouteContext, job: &'a Job },
    Activity { solution_ctx: &'a SolutionContext, route_ctx: &'a RouteContext, activity_ctx: &'a ActivityContext<'a> },
}
pub trait FeatureConstraint { fn evaluate(&self, move_ctx: &MoveContext<'_>) -> Option<ConstraintViolation>; fn merge(&self, source: Job, candidate: Job) -> Result<Job, ViolationCode>; }
pub trait TransportCost: Send + Sync {
    fn duration(&self, route: &Route, from: Location, to: Location, t: TravelTime) -> Duration;
    fn distance(&self, route: &Route, from: Location, to: Location, t: TravelTime) -> Distance;
}
pub struct M { pub dur: [[Float; 4]; 4], pub dist: [[Float; 4]; 4] }
impl TransportCost for M {
    fn duration(&self, _: &Route, from: Location, to: Location, _: TravelTime) -> Duration { self.dur[from][to] }
    fn distance(&self, _: &Route, from: Location, to: Location, _: TravelTime) -> Distance { self.dist[from][to] }
}

// ------------------------------------------------------------------ code under contract (verbatim from /repo)
//@extract vrp-core/src/construction/enablers/travel_info.rs :: fn calculate_travel_delta
//@end
//@extract vrp-core/src/construction/enablers/travel_info.rs :: fn calculate_travel_leg
//@end
//@extract vrp-core/src/construction/features/tour_limits.rs :: type ActivitySizeResolver
//@end
//@extract vrp-core/src/construction/features/tour_limits.rs :: type TravelLimitFn
//@end
//@extract vrp-core/src/construction/features/tour_limits.rs :: struct ActivityLimitConstraint
//@end
//@extract vrp-core/src/construction/features/tour_limits.rs :: impl FeatureConstraint for ActivityLimitConstraint
//@end
//@extract vrp-core/src/construction/features/tour_limits.rs :: struct TravelLimitConstraint
//@end
//@extract vrp-core/src/construction/features/tour_limits.rs :: impl TravelLimitConstraint
//@end
//@extract vrp-core/src/construction/features/tour_limits.rs :: impl FeatureConstraint for TravelLimitConstraint
//@end

#[cfg(kani)]
mod h {
    use super::*;
    static mut RANGE: u8 = 15;
    #[allow(static_mut_refs)]
    fn t() -> Float { let v: u8 = kani::any(); kani::assume(v <= unsafe { RANGE }); v as Float }
    fn rc(job_activities: usize, dist: Option<Float>, dur: Option<Float>) -> RouteContext {
        RouteContext { route: Route { actor: Arc::new(Actor { id: 0 }), tour: Tour { job_activities, jobs: { let j: usize = kani::any(); kani::assume(j <= job_activities && (j > 0 || job_activities == 0)); j }, closed: kani::any() } }, state: RouteState { total_distance: dist, total_duration: dur } }
    }

    /// C01 (tour size limit): a job is accepted for a tour iff the tour's job activities plus the job's do not exceed the
    /// vehicle's limit (no limit: always); the activity level is unrestricted. Complete: loop-free, all sizes < 2^32.
    fn activity_limit(job: Job, size: usize) {
        let limit: Option<usize> = if kani::any() { let l: u32 = kani::any(); Some(l as usize) } else { None };
        let in_tour: usize = { let v: u32 = kani::any(); v as usize };
        let c = ActivityLimitConstraint { code: ViolationCode(3), limit_fn: Arc::new(move |_| limit) };
        let route_ctx = rc(in_tour, None, None);
        let r = c.evaluate(&MoveContext::Route { solution_ctx: &SolutionContext {}, route_ctx: &route_ctx, job: &job });
        assert!(r.is_none() == limit.map_or(true, |l| in_tour + size <= l), "post_tour_size_gate_accepts_iff_within_limit");
        if let Some(v) = &r { assert!(v.code == ViolationCode(3) && v.stopped, "post_tour_size_violation_stops_with_the_feature_code"); }
        kani::cover!(limit.is_some() && r.is_none());
        kani::cover!(r.is_some());
    }
    #[kani::proof] fn activity_limit_gate_exact_single() { activity_limit(Job::Single(Arc::new(Single {})), 1) }
    #[kani::proof] fn activity_limit_gate_exact_multi() { activity_limit(Job::Multi(Arc::new(Multi { jobs: vec![Arc::new(Single {}), Arc::new(Single {})] })), 2) }

    /// C01 (distance limit): accepted => current total distance + the leg delta d(p,t)+d(t,n)-d(p,n) (d(p,t) at the open end)
    /// stays within the limit; by lemma L20 that sum IS the new total distance. Converse: within the limit => accepted
    /// (when no duration limit interferes). Integer-valued distances (exact arithmetic).
    #[kani::proof]
    fn distance_limit_gate() {
        let mut m = M { dur: [[0.; 4]; 4], dist: [[0.; 4]; 4] };
        let mut i = 0;
        while i < 3 { let mut j = 0; while j < 3 { if i != j { m.dist[i][j] = t(); m.dur[i][j] = t(); } j += 1; } i += 1; }
        let (dpt, dtn, dpn) = (m.dist[0][1], m.dist[1][2], m.dist[0][2]);
        let limit: Option<Float> = if kani::any() { Some({ let v: u8 = kani::any(); v as Float }) } else { None };
        let curr = { let v: u8 = kani::any(); v as Float };
        let has_state: bool = kani::any();
        let act = |loc: usize| Activity { place: Place { idx: 0, location: loc, duration: t(), time: TimeWindow { start: t(), end: 1e9 } }, schedule: Schedule { arrival: 0., departure: t() } };
        let (p, tg, n) = (act(0), act(1), act(2));
        let has_next: bool = kani::any();
        let c = TravelLimitConstraint { transport: Arc::new(m), tour_distance_limit_fn: Arc::new(move |_| limit), tour_duration_limit_fn: Arc::new(|_| None), distance_code: ViolationCode(4), duration_code: ViolationCode(5) };
        let route_ctx = rc(1, if has_state { Some(curr) } else { None }, None);
        let actx = ActivityContext { index: 0, prev: &p, target: &tg, next: if has_next { Some(&n) } else { None } };
        let r = c.evaluate(&MoveContext::Activity { solution_ctx: &SolutionContext {}, route_ctx: &route_ctx, activity_ctx: &actx });
        let new_total = (if has_state { curr } else { 0. }) + (if has_next { dpt + dtn - dpn } else { dpt });
        assert!(r.is_none() == limit.map_or(true, |l| new_total <= l), "post_distance_gate_accepts_iff_new_total_within_limit");
        if let Some(v) = &r { assert!(v.code == ViolationCode(4) && !v.stopped, "post_distance_violation_skips_with_the_distance_code"); }
        kani::cover!(limit.is_some() && r.is_none() && has_next);
        kani::cover!(r.is_some());
    }

    /// C01 (duration limit): accepted => the tour, replayed step by step with the new stop, lasts no longer than the limit
    /// (given it did not before). Tour start -> x -> end, new stop on either leg.
    #[kani::proof] #[kani::unwind(6)]
    fn duration_limit_gate_sound() {
        unsafe { RANGE = 7; }
        let mut m = M { dur: [[0.; 4]; 4], dist: [[0.; 4]; 4] };
        let mut i = 0;
        while i < 4 { let mut j = 0; while j < 4 { if i != j { m.dur[i][j] = t(); } j += 1; } i += 1; }
        let act = |loc: usize| Activity { place: Place { idx: 0, location: loc, duration: t(), time: TimeWindow { start: t(), end: 1e9 } }, schedule: Schedule { arrival: 0., departure: 0. } };
        // existing tour: s(0) -> x(1) -> e(2); candidate t at location 3
        let dep0 = t();
        let replay = |stops: &mut [Activity]| -> Float {
            let (mut loc, mut dep) = (stops[0].place.location, dep0);
            stops[0].schedule = Schedule { arrival: dep0, departure: dep0 };
            let mut k = 1;
            while k < stops.len() {
                let arr = dep + m.dur[loc][stops[k].place.location];
                let d = (if arr > stops[k].place.time.start { arr } else { stops[k].place.time.start }) + stops[k].place.duration;
                stops[k].schedule = Schedule { arrival: arr, departure: d };
                loc = stops[k].place.location; dep = d; k += 1;
            }
            dep - dep0
        };
        let (mut s, x, e, tg) = (act(0), act(1), act(2), act(3));
        s.place.duration = 0.;
        let mut before = [s.clone(), x.clone(), e.clone()];
        let curr = replay(&mut before);
        let limit = { let v: u8 = kani::any(); v as Float };
        kani::assume(curr <= limit);
        let leg: usize = kani::any(); kani::assume(leg < 2);
        let c = TravelLimitConstraint { transport: Arc::new(M { dur: m.dur, dist: m.dist }), tour_distance_limit_fn: Arc::new(|_| None), tour_duration_limit_fn: Arc::new(move |_| Some(limit)), distance_code: ViolationCode(4), duration_code: ViolationCode(5) };
        let route_ctx = rc(1, None, Some(curr));
        let actx = ActivityContext { index: leg, prev: &before[leg], target: &tg, next: Some(&before[leg + 1]) };
        let r = c.evaluate(&MoveContext::Activity { solution_ctx: &SolutionContext {}, route_ctx: &route_ctx, activity_ctx: &actx });
        if r.is_none() {
            let mut after = if leg == 0 { [s.clone(), tg.clone(), x.clone(), e.clone()] } else { [s.clone(), x.clone(), tg.clone(), e.clone()] };
            assert!(replay(&mut after) <= limit, "post_accepted_insertion_keeps_tour_duration_within_limit");
        }
        kani::cover!(r.is_none());
        kani::cover!(r.is_some());
    }
}
