// U05d – job-group feature (groups.rs, verbatim): the cached per-route group tags equal recomputation from the bare
// tours after every solution hand-over and after every insertion; the group gate is sound w.r.t. those tags
#![allow(dead_code, unused_variables, unused_imports)]
#[path = "@VERIF_ENV@/collections.rs"]
mod verif_env;
use verif_env::HashSet;
use std::sync::Arc;

// ------------------------------------------------------------------ environment (assumed surroundings, NOT under proof)
/// group names are modelled as small integers: inside this crate the name `String` denotes this type, so the extracted
/// text (`HashSet<String>`, `group.clone()`) is compiled unchanged
pub type String = u8;
#[derive(Clone, Copy, Debug, PartialEq, Eq)] pub struct ViolationCode(pub i32);
#[derive(Clone, Debug, PartialEq, Eq)] pub struct ConstraintViolation { pub code: ViolationCode, pub stopped: bool }
impl ConstraintViolation { pub fn fail(code: ViolationCode) -> Option<Self> { Some(Self { code, stopped: true }) } }
pub struct Dimensions { pub group: Option<String> }
impl Dimensions { pub fn get_job_group(&self) -> Option<&String> { self.group.as_ref() } }
pub struct Job { pub id: u8, pub dimens: Dimensions }
impl Job { pub fn dimens(&self) -> &Dimensions { &self.dimens } }
#[derive(PartialEq, Eq)] pub struct Actor { pub id: u8 }
pub struct Tour { pub jobs: Vec<Job> }
impl Tour { pub fn jobs(&self) -> impl Iterator<Item = &Job> + '_ { self.jobs.iter() } }
pub struct Route { pub actor: Arc<Actor>, pub tour: Tour }
/// real: RouteState type map with macro-generated accessors (custom_tour_state! CurrentGroups)
#[derive(Default)] pub struct RouteState { pub current_groups: Option<HashSet<String>> }
impl RouteState {
    pub fn get_current_groups(&self) -> Option<&HashSet<String>> { self.current_groups.as_ref() }
    pub fn set_current_groups(&mut self, v: HashSet<String>) { self.current_groups = Some(v); }
}
pub struct RouteCache { pub is_stale: bool }
pub struct RouteContext { route: Route, state: RouteState, cache: RouteCache }
pub struct SolutionContext { pub routes: Vec<RouteContext>, pub jobs_amount: usize }
impl SolutionContext { pub fn get_jobs_amount(&self) -> usize { self.jobs_amount } }
pub enum MoveContext<'a> {
    Route { solution_ctx: &'a SolutionContext, route_ctx: &'a RouteContext, job: &'a Job },
    Activity { solution_ctx: &'a SolutionContext, route_ctx: &'a RouteContext },
}
pub trait FeatureConstraint { fn evaluate(&self, move_ctx: &MoveContext<'_>) -> Option<ConstraintViolation>; fn merge(&self, source: Job, candidate: Job) -> Result<Job, ViolationCode>; }
pub trait FeatureState {
    fn accept_insertion(&self, solution_ctx: &mut SolutionContext, route_index: usize, job: &Job);
    fn accept_route_state(&self, route_ctx: &mut RouteContext);
    fn accept_solution_state(&self, solution_ctx: &mut SolutionContext);
}

// ------------------------------------------------------------------ code under contract (verbatim from /repo)
impl RouteContext {
//@extract vrp-core/src/construction/heuristics/context.rs :: impl RouteContext/fn route
//@end
//@extract vrp-core/src/construction/heuristics/context.rs :: impl RouteContext/fn state
//@end
//@extract vrp-core/src/construction/heuristics/context.rs :: impl RouteContext/fn state_mut
//@end
//@extract vrp-core/src/construction/heuristics/context.rs :: impl RouteContext/fn is_stale
//@end
//@extract vrp-core/src/construction/heuristics/context.rs :: impl RouteContext/fn mark_stale
//@end
}
//@extract vrp-core/src/construction/features/groups.rs :: struct GroupConstraint
//@end
//@extract vrp-core/src/construction/features/groups.rs :: impl FeatureConstraint for GroupConstraint
//@end
//@extract vrp-core/src/construction/features/groups.rs :: struct GroupState
//@end
//@extract vrp-core/src/construction/features/groups.rs :: impl FeatureState for GroupState
//@end
//@extract vrp-core/src/construction/features/groups.rs :: fn get_groups
//@end

// ------------------------------------------------------------------ contract harnesses
#[cfg(kani)]
mod h {
    use super::*;
    const G: u8 = 3;
    fn any_group() -> Option<String> { if kani::any() { let g: u8 = kani::any(); kani::assume(g < G); Some(g) } else { None } }
    fn any_cache() -> Option<HashSet<String>> {
        // arbitrary previous cache content (possibly garbage, possibly absent)
        // (constant-shaped alternatives: absent, empty, a stale superset, a stale disjoint set)
        let k: u8 = kani::any();
        match k % 4 { 0 => None, 1 => Some(HashSet::default()), 2 => Some([0u8, 1, 2].into_iter().collect()), _ => Some([2u8].into_iter().collect()) }
    }
    fn route(id: u8, groups: [Option<String>; 2], n: usize) -> RouteContext {
        let jobs = match n { 0 => vec![], 1 => vec![Job { id: 10 * id, dimens: Dimensions { group: groups[0] } }],
                             _ => vec![Job { id: 10 * id, dimens: Dimensions { group: groups[0] } }, Job { id: 10 * id + 1, dimens: Dimensions { group: groups[1] } }] };
        RouteContext { route: Route { actor: Arc::new(Actor { id }), tour: Tour { jobs } }, state: RouteState { current_groups: any_cache() }, cache: RouteCache { is_stale: kani::any() } }
    }
    fn tags_equal_recomputation(rc: &RouteContext, groups: &[Option<String>; 2], n: usize, what: &'static str) {
        let cached = rc.state().get_current_groups().expect("post_group_tags_present");
        let mut g = 0;
        while g < G {
            let in_tour = (n > 0 && groups[0] == Some(g)) || (n > 1 && groups[1] == Some(g));
            assert!(cached.contains(&g) == in_tour, "post_cached_group_tags_equal_recomputation_from_tour");
            g += 1;
        }
    }

    /// C05: at every solution hand-over the cached tags of EVERY route equal what is recomputed from its tour,
    /// whatever the stale flags and the previous cache content
    fn solution_state(n0: usize, n1: usize) {
        let (g0, g1) = ([any_group(), any_group()], [any_group(), any_group()]);
        let mut s = SolutionContext { routes: vec![route(0, g0, n0), route(1, g1, n1)], jobs_amount: 4 };
        let stale = (s.routes[0].is_stale(), s.routes[1].is_stale());
        GroupState {}.accept_solution_state(&mut s);
        tags_equal_recomputation(&s.routes[0], &g0, n0, "route 0");
        tags_equal_recomputation(&s.routes[1], &g1, n1, "route 1");
        kani::cover!(!stale.0);
        kani::cover!(stale.1);
    }
    #[kani::proof] #[kani::unwind(5)] fn groups_accept_solution_state_recomputes_all_routes_2_1() { solution_state(2, 1) }
    #[kani::proof] #[kani::unwind(5)] fn groups_accept_solution_state_recomputes_all_routes_1_2() { solution_state(1, 2) }
    #[kani::proof] #[kani::unwind(5)] fn groups_accept_solution_state_recomputes_all_routes_0_2() { solution_state(0, 2) }

    /// C05: after an insertion of `job` into route i (tour already updated) and accept_insertion, route i's tags equal
    /// recomputation, provided they did before the insertion
    #[kani::proof] #[kani::unwind(5)]
    fn groups_accept_insertion_keeps_tags_exact() {
        let old = any_group();
        let new = any_group();
        // route 0 before: one job with group `old`, cache exact
        let mut rc = route(0, [old, None], 1);
        rc.state.current_groups = Some(old.iter().cloned().collect());
        let job = Job { id: 1, dimens: Dimensions { group: new } };
        rc.route.tour.jobs.push(Job { id: 1, dimens: Dimensions { group: new } });
        let mut s = SolutionContext { routes: vec![rc], jobs_amount: 2 };
        GroupState {}.accept_insertion(&mut s, 0, &job);
        tags_equal_recomputation(&s.routes[0], &[old, new], 2, "route 0");
        if new.is_some() { assert!(s.routes[0].is_stale(), "post_state_write_marks_route_stale"); }
    }

    /// C01 (group rule): the gate accepts a grouped job for a route only if no OTHER route carries that group
    /// (according to the tags) and the problem is complete; an ungrouped job always passes
    #[kani::proof] #[kani::unwind(5)]
    fn group_gate_sound_and_complete() {
        let (g0, g1) = ([any_group(), any_group()], [any_group(), any_group()]);
        let mut s = SolutionContext { routes: vec![route(0, g0, 2), route(1, g1, 2)], jobs_amount: kani::any() };
        GroupState {}.accept_solution_state(&mut s);
        let jg = any_group();
        let job = Job { id: 99, dimens: Dimensions { group: jg } };
        let c = GroupConstraint { total_jobs: 4, code: ViolationCode(5) };
        let r = c.evaluate(&MoveContext::Route { solution_ctx: &s, route_ctx: &s.routes[0], job: &job });
        match jg {
            None => assert!(r.is_none(), "post_ungrouped_job_passes"),
            Some(g) => {
                let other_has = g1[0] == Some(g) || g1[1] == Some(g);
                assert!(r.is_none() == (s.jobs_amount == 4 && !other_has), "post_grouped_job_passes_iff_no_other_route_has_its_group");
                if let Some(v) = r { assert!(v.code == ViolationCode(5) && v.stopped, "post_group_violation_stops_with_the_feature_code"); }
            }
        }
        assert!(c.evaluate(&MoveContext::Activity { solution_ctx: &s, route_ctx: &s.routes[0] }).is_none(), "post_activity_level_is_not_restricted");
    }
}
