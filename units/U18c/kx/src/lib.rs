// U18c – random_argmax (rosomaxa/src/utils/random.rs, verbatim): picks a configured operator whose estimate is maximal,
// never fails for a non-empty list, whatever the random draws
#![allow(dead_code, unused_variables, unused_imports)]
use std::cmp::Ordering;
pub type Float = f64;

// ------------------------------------------------------------------ environment (assumed)
/// random generator: every draw is an arbitrary value of the requested range (real: rand SmallRng)
pub struct RandomGen;
impl RandomGen { pub fn gen_range(&mut self, r: std::ops::RangeInclusive<i32>) -> i32 { let v: i32 = kani_any_i32(); assume(v >= *r.start() && v <= *r.end()); v } }
pub trait Random { fn get_rng(&self) -> RandomGen; }
#[cfg(kani)] fn kani_any_i32() -> i32 { kani::any() }
#[cfg(kani)] fn assume(c: bool) { kani::assume(c) }
#[cfg(not(kani))] fn kani_any_i32() -> i32 { 0 }
#[cfg(not(kani))] fn assume(_: bool) {}

// ------------------------------------------------------------------ code under contract (verbatim from /repo)
//@extract rosomaxa/src/utils/random.rs :: fn random_argmax
//@end

#[cfg(kani)]
mod h {
    use super::*;
    struct Rnd; impl Random for Rnd { fn get_rng(&self) -> RandomGen { RandomGen } }
    /// C18: arg-max selection returns the index of a maximal value (ties broken by the random draws, all of them allowed),
    /// Some for every non-empty list, None for the empty one; values may be any non-NaN floats incl. infinities
    fn argmax<const N: usize>() {
        let xs: [Float; N] = core::array::from_fn(|_| { let v: Float = kani::any(); kani::assume(!v.is_nan()); v });
        let r = random_argmax(xs.iter().cloned(), &Rnd);
        if N == 0 { assert!(r.is_none(), "post_argmax_of_empty_list_is_none"); return; }
        let i = r.expect("post_argmax_never_fails_on_non_empty_list");
        assert!(i < N, "post_argmax_picks_a_configured_entry");
        let mut k = 0;
        while k < N { assert!(xs[i].total_cmp(&xs[k]) != Ordering::Less, "post_argmax_entry_is_maximal"); k += 1; }
    }
    #[kani::proof] #[kani::unwind(6)] fn argmax_0() { argmax::<0>() }
    #[kani::proof] #[kani::unwind(6)] fn argmax_1() { argmax::<1>() }
    #[kani::proof] #[kani::unwind(6)] fn argmax_3() { argmax::<3>() }
    #[kani::proof] #[kani::unwind(7)] fn argmax_4() { argmax::<4>() }
    /// every maximal entry can be the one picked (the tie-break does not starve an entry): reachability covers
    #[kani::proof] #[kani::unwind(6)]
    fn argmax_ties_every_maximum_reachable() {
        let xs = [1.0, 1.0, 0.5];
        let r = random_argmax(xs.iter().cloned(), &Rnd);
        assert!(r == Some(0) || r == Some(1), "post_argmax_entry_is_maximal");
        kani::cover!(r == Some(0));
        kani::cover!(r == Some(1));
    }
}
