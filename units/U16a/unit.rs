// U16a – matrix-backed routing look-ups return exactly the supplied entry (durations * profile scale, distances unscaled).
#![allow(unused_imports, dead_code)]
use vstd::prelude::*;
use vstd::std_specs::ops::*;
use vstd::std_specs::cmp::*;
verus! {

// ---------------------------------------------------------------- environment (assumed)
pub mod fl {
    use vstd::prelude::*;
    use vstd::std_specs::ops::*;
    /// Rust/IEEE: f64 multiplication never panics and is a deterministic function of its operands
    pub broadcast axiom fn ax_f64_mul_req(a: f64, b: f64) ensures #[trigger] a.mul_req(b);
    pub axiom fn ax_f64_obeys_mul() ensures <f64 as MulSpec>::obeys_mul_spec();
    pub broadcast group float_total { ax_f64_mul_req }
}
broadcast use fl::float_total;

// std contract missing from vstd
pub assume_specification<'a, T: Copy> [core::option::Option::<&'a T>::copied] (o: Option<&'a T>) -> (r: Option<T>)
    ensures o is Some ==> r == Some(*o->0), o is None ==> r is None;

pub type Float = f64;
pub type Duration = Float;
pub type Distance = Float;
pub type Location = usize;
pub type Timestamp = Float;

pub struct Profile { pub index: usize, pub scale: Float }
pub enum TravelTime { Arrival(Timestamp), Departure(Timestamp) }
pub struct Vehicle { pub profile: Profile }
pub struct Actor { pub vehicle: Vehicle }
/// real: `Route { actor: Arc<Actor>, tour: Tour }`
pub struct Route { pub actor: Box<Actor> }

pub trait TransportFallback {
    spec fn spec_duration(&self, profile: &Profile, from: Location, to: Location) -> Duration;
    spec fn spec_distance(&self, profile: &Profile, from: Location, to: Location) -> Distance;
    fn duration(&self, profile: &Profile, from: Location, to: Location) -> (r: Duration)
        ensures r == self.spec_duration(profile, from, to);
    fn distance(&self, profile: &Profile, from: Location, to: Location) -> (r: Distance)
        ensures r == self.spec_distance(profile, from, to);
}

// ---------------------------------------------------------------- TimeAgnosticMatrixTransportCost (field list mirrors costs.rs)
struct TimeAgnosticMatrixTransportCost<T: TransportFallback> {
    durations: Vec<Vec<Duration>>,
    distances: Vec<Vec<Distance>>,
    size: usize,
    fallback: T,
}

impl<T: TransportFallback> TimeAgnosticMatrixTransportCost<T> {
    /// the documented look-up: row-major entry `from * size + to` of the matrix of the vehicle's profile, fallback when absent
    pub closed spec fn dur_entry(&self, profile: &Profile, from: Location, to: Location) -> Duration {
        let m = self.durations@[profile.index as int]@;
        let i = from * self.size + to;
        if i < m.len() { m[i] } else { self.fallback.spec_duration(profile, from, to) }
    }
    pub closed spec fn dist_entry(&self, profile: &Profile, from: Location, to: Location) -> Distance {
        let m = self.distances@[profile.index as int]@;
        let i = from * self.size + to;
        if i < m.len() { m[i] } else { self.fallback.spec_distance(profile, from, to) }
    }
    pub closed spec fn has_profile(&self, profile: &Profile) -> bool {
        profile.index < self.durations@.len() && profile.index < self.distances@.len()
    }
    pub closed spec fn idx_ok(&self, from: Location, to: Location) -> bool { from * self.size + to <= usize::MAX }
    pub closed spec fn v_size(&self) -> usize { self.size }

//@extract vrp-core/src/models/problem/costs.rs :: impl<T: TransportFallback> TransportCost for TimeAgnosticMatrixTransportCost<T>/fn duration_approx ret=r vis=private
//@| requires self.has_profile(profile), self.idx_ok(from, to),
//@| ensures r == self.dur_entry(profile, from, to).mul_spec(profile.scale),
//@prologue proof { fl::ax_f64_obeys_mul(); }
//@closure 1 -> (d: Duration) ensures d == self.fallback.spec_duration(profile, from, to)
//@end

//@extract vrp-core/src/models/problem/costs.rs :: impl<T: TransportFallback> TransportCost for TimeAgnosticMatrixTransportCost<T>/fn distance_approx ret=r vis=private
//@| requires self.has_profile(profile), self.idx_ok(from, to),
//@| ensures r == self.dist_entry(profile, from, to),
//@closure 1 -> (d: Distance) ensures d == self.fallback.spec_distance(profile, from, to)
//@end

//@extract vrp-core/src/models/problem/costs.rs :: impl<T: TransportFallback> TransportCost for TimeAgnosticMatrixTransportCost<T>/fn duration ret=r vis=private
//@| requires self.has_profile(&route.actor.vehicle.profile), self.idx_ok(from, to),
//@| ensures r == self.dur_entry(&route.actor.vehicle.profile, from, to).mul_spec(route.actor.vehicle.profile.scale),
//@subst "_: TravelTime" => "_tt: TravelTime" count=1
//@end

//@extract vrp-core/src/models/problem/costs.rs :: impl<T: TransportFallback> TransportCost for TimeAgnosticMatrixTransportCost<T>/fn distance ret=r vis=private
//@| requires self.has_profile(&route.actor.vehicle.profile), self.idx_ok(from, to),
//@| ensures r == self.dist_entry(&route.actor.vehicle.profile, from, to),
//@subst "_: TravelTime" => "_tt: TravelTime" count=1
//@end

//@extract vrp-core/src/models/problem/costs.rs :: impl<T: TransportFallback> TransportCost for TimeAgnosticMatrixTransportCost<T>/fn size ret=r vis=private
//@| ensures r == self.v_size(),
//@end
}

// ---------------------------------------------------------------- SimpleTransportCost (single profile, no scale, 0 when absent)
pub struct SimpleTransportCost {
    durations: Vec<Duration>,
    distances: Vec<Distance>,
    size: usize,
}

impl SimpleTransportCost {
    pub closed spec fn dur_entry(&self, from: Location, to: Location) -> Duration {
        let i = from * self.size + to;
        if i < self.durations@.len() { self.durations@[i] } else { 0.0f64 }
    }
    pub closed spec fn dist_entry(&self, from: Location, to: Location) -> Distance {
        let i = from * self.size + to;
        if i < self.distances@.len() { self.distances@[i] } else { 0.0f64 }
    }
    pub closed spec fn idx_ok(&self, from: Location, to: Location) -> bool { from * self.size + to <= usize::MAX }

//@extract vrp-core/src/models/problem/costs.rs :: impl TransportCost for SimpleTransportCost/fn duration_approx ret=r vis=private
//@| requires self.idx_ok(from, to),
//@| ensures r == self.dur_entry(from, to),
//@subst "_: &Profile" => "_p: &Profile" count=1
//@end

//@extract vrp-core/src/models/problem/costs.rs :: impl TransportCost for SimpleTransportCost/fn distance_approx ret=r vis=private
//@| requires self.idx_ok(from, to),
//@| ensures r == self.dist_entry(from, to),
//@subst "_: &Profile" => "_p: &Profile" count=1
//@end

//@extract vrp-core/src/models/problem/costs.rs :: impl TransportCost for SimpleTransportCost/fn duration ret=r vis=private
//@| requires self.idx_ok(from, to),
//@| ensures r == self.dur_entry(from, to),
//@subst "_: TravelTime" => "_tt: TravelTime" count=1
//@end

//@extract vrp-core/src/models/problem/costs.rs :: impl TransportCost for SimpleTransportCost/fn distance ret=r vis=private
//@| requires self.idx_ok(from, to),
//@| ensures r == self.dist_entry(from, to),
//@subst "_: TravelTime" => "_tt: TravelTime" count=1
//@end
}

// vacuity guard: must be REJECTED
proof fn vacuity_lookup<T: TransportFallback>(c: TimeAgnosticMatrixTransportCost<T>, p: Profile)
    requires c.has_profile(&p), c.idx_ok(1, 2),
{ assert(c.dur_entry(&p, 1, 2) == c.dist_entry(&p, 1, 2)); }

} // verus!
fn main() {}
