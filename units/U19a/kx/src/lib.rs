// U19a – GSOM compaction: the coordinate remap of `contract_graph` is injective on the surviving nodes.
#![allow(dead_code, unused_imports)]
use std::cmp::Ordering;

//@extract rosomaxa/src/algorithms/gsom/contraction.rs :: fn get_offset
//@end

#[cfg(kani)]
mod h {
    use super::*;

    /// network shape: x_min <= 0 <= x_max (the initial 2x2.. grid contains the origin and growth is contiguous),
    /// |coordinate| <= 2^20 (a map of 10^12 nodes; keeps i32 arithmetic far from overflow – overflow itself is
    /// checked by Kani inside get_offset).
    fn any_shape() -> (i32, i32) {
        let (lo, hi): (i32, i32) = (kani::any(), kani::any());
        kani::assume(lo >= -(1 << 20) && lo <= 0 && hi >= 0 && hi <= (1 << 20));
        (lo, hi)
    }
    fn any_decim() -> i32 {
        let decim: i32 = kani::any();
        kani::assume(decim == 3 || decim == 4); // the only values `Network::compact` passes
        decim
    }

    /// post: for survivors a < b of the decimation (v % decim != 0): a + off(a) < b + off(b)
    /// (strictly monotone => injective => compaction cannot merge two surviving nodes into one key)
    #[kani::proof]
    fn offset_remap_is_strictly_monotone() {
        let decim = any_decim();
        let (lo, hi) = any_shape();
        let (a, b): (i32, i32) = (kani::any(), kani::any());
        kani::assume(lo <= a && a < b && b <= hi);
        kani::assume(a % decim != 0 && b % decim != 0);
        let (na, nb) = (a + get_offset(a, (lo, hi), decim), b + get_offset(b, (lo, hi), decim));
        assert!(na < nb, "post_remap_strictly_monotone");
        kani::cover!(a < 0 && b > 0);
        kani::cover!(a > 0 && hi > -lo);
        kani::cover!(b < 0 && hi <= -lo);
    }

    /// post: the remap never moves a node away from the origin and keeps it inside the old shape
    /// (so compaction never grows the map)
    #[kani::proof]
    fn offset_remap_contracts_towards_origin() {
        let decim = any_decim();
        let (lo, hi) = any_shape();
        let a: i32 = kani::any();
        kani::assume(lo <= a && a <= hi && a % decim != 0);
        let na = a + get_offset(a, (lo, hi), decim);
        assert!(na.abs() <= a.abs(), "post_remap_not_away_from_origin");
        assert!(lo <= na && na <= hi, "post_remap_stays_in_shape");
        assert!((na < 0) == (a < 0) || na == 0, "post_remap_keeps_side");
        kani::cover!(a < 0);
        kani::cover!(a > 0);
    }

    /// negative guard (must fail): without the survivor premise two nodes may collide, i.e. the premise is not vacuous
    #[kani::proof]
    fn guard_monotone_needs_survivor_premise() {
        let decim = any_decim();
        let (lo, hi) = any_shape();
        let (a, b): (i32, i32) = (kani::any(), kani::any());
        kani::assume(lo <= a && a < b && b <= hi);
        let (na, nb) = (a + get_offset(a, (lo, hi), decim), b + get_offset(b, (lo, hi), decim));
        assert!(na < nb);
    }
}
