// U10c – vehicle validation rules E1304 (reload time windows), E1306 (zero costs), E1307 (offset break with departure rescheduling)
// (vehicles.rs, verbatim) over a string-free stub of the pragmatic model, against the CONTRACT of check_time_windows (unit U10a)
#![allow(dead_code, unused_macros, unused_variables, unused_imports)]
macro_rules! format { ($($t:tt)*) => { String::new() } } // message text dropped (the error CODE is what the property speaks about)

#[path = "@VERIF_ENV@/eager.rs"]
mod verif_eager;
use verif_eager::FlatMapEager;

// ------------------------------------------------------------------ environment (assumed)
pub type Float = f64;
#[derive(Clone, Debug, PartialEq)] pub struct TimeWindow { pub start: Float, pub end: Float }
impl TimeWindow {
    pub fn new(start: Float, end: Float) -> Self { Self { start, end } }
//@extract vrp-core/src/models/common/domain.rs :: impl TimeWindow/fn intersects
//@end
}
/// real: String; type ids only flow into the dropped message text
#[derive(Clone, Copy, PartialEq)] pub struct TypeId(pub u8);
impl TypeId { pub fn to_string(&self) -> TypeId { *self } }
/// an RFC3339 string is an opaque token (parsing is outside the technique); equality of strings == equality of tokens
#[derive(Clone, Copy, PartialEq)] pub struct Stamp(pub u8);
/// the `times` list of a reload carries the windows get_time_windows parses out of it (None: malformed)
/// (the model's lists are inline arrays, not Vecs: the rules only iterate them, and CBMC loses precision - and all its memory - on
/// pointers to nested heap objects; at most 2 windows per reload, 2 reloads per shift, 1 shift, 1 vehicle type)
/// NOTE the token has no field with a niche (no bool / enum / Option inside): otherwise rustc encodes `Option<Tws>::None` in that
/// field, and a symbolic window makes the presence of `times` itself symbolic for CBMC (path explosion)
#[derive(Clone)] pub struct Tws { pub ok: [u8; 2], pub w: [(Float, Float); 2], pub n: usize }
impl Tws { fn at(&self, i: usize) -> Option<TimeWindow> { if self.ok[i] != 0 { Some(TimeWindow { start: self.w[i].0, end: self.w[i].1 }) } else { None } } }
pub fn get_time_windows(tws: &Tws) -> Vec<Option<TimeWindow>> { if tws.n == 2 { vec![tws.at(0), tws.at(1)] } else if tws.n == 1 { vec![tws.at(0)] } else { Vec::new() } }
pub struct VehicleReload { pub times: Option<Tws> }
pub enum VehicleRequiredBreakTime { ExactTime { earliest: Stamp, latest: Stamp }, OffsetTime { earliest: Float, latest: Float } }
pub enum VehicleOptionalBreakTime { TimeWindow(Vec<Stamp>), TimeOffset(Vec<Float>) }
pub enum VehicleBreak { Optional { time: VehicleOptionalBreakTime }, Required { time: VehicleRequiredBreakTime, duration: Float } }
pub struct ShiftStart { pub earliest: Stamp, pub latest: Option<Stamp> }
/// `time` is what get_shift_time_window parses out of start.earliest / end.latest (None: malformed)
pub struct VehicleShift { pub start: ShiftStart, pub time: Option<TimeWindow>, pub breaks: Option<[VehicleBreak; 1]>, pub reloads: Option<[VehicleReload; 2]> }
pub fn get_shift_time_window(shift: &VehicleShift) -> Option<TimeWindow> { shift.time.clone() }
pub struct VehicleCosts { pub time: Float, pub distance: Float }
pub struct VehicleType { pub type_id: TypeId, pub costs: VehicleCosts, pub shifts: [VehicleShift; 1] }
pub struct Fleet { pub vehicles: [VehicleType; 1] }
pub struct Problem { pub fleet: Fleet }
pub struct FormatError { pub code: [u8; 5] }
impl FormatError { pub fn new(code: String, _cause: String, _action: String) -> Self { let b = code.as_bytes(); Self { code: [b[0], b[1], b[2], b[3], b[4]] } } }
pub struct ValidationContext<'a> { pub problem: &'a Problem }
/// CONTRACT of check_time_windows (what unit U10a verifies the real one against): the documented time-window rule
pub fn check_time_windows(tws: &[Option<TimeWindow>], skip_intersection_check: bool) -> bool {
    let n = tws.len();
    if n == 0 { return false; }
    let mut i = 0;
    while i < n {
        match &tws[i] { None => return false, Some(a) => {
            if !(a.start <= a.end) { return false; }
            let mut j = i + 1;
            while j < n { if let Some(b) = &tws[j] { if !skip_intersection_check && a.start <= b.end && b.start <= a.end { return false; } } j += 1; }
        } }
        i += 1;
    }
    true
}

// ------------------------------------------------------------------ code under contract (verbatim from /repo)
impl<'a> ValidationContext<'a> {
//@extract vrp-pragmatic/src/validation/mod.rs :: impl<'a> ValidationContext<'a>/fn vehicles
//@end
}
//@extract vrp-pragmatic/src/validation/vehicles.rs :: type CheckShiftFn
//@end
//@extract vrp-pragmatic/src/validation/vehicles.rs :: fn get_invalid_type_ids
//@subst "Vec<String>" => "Vec<TypeId>" count=1
//@end
//@extract vrp-pragmatic/src/validation/vehicles.rs :: fn check_shift_time_windows
//@end
//@extract vrp-pragmatic/src/validation/vehicles.rs :: fn check_e1304_vehicle_reload_time_is_correct
//@subst ".flat_map(" => ".flat_map_eager(" count=1
//@end
//@extract vrp-pragmatic/src/validation/vehicles.rs :: fn check_e1306_vehicle_has_no_zero_costs
//@end
//@extract vrp-pragmatic/src/validation/vehicles.rs :: fn check_e1307_vehicle_offset_break_rescheduling
//@end

// ------------------------------------------------------------------ contract harnesses
#[cfg(kani)]
mod h {
    use super::*;
    fn t() -> Float { let v: u8 = kani::any(); kani::assume(v < 8); v as Float }
    fn any_tw() -> Option<TimeWindow> { if kani::any() { Some(TimeWindow { start: t(), end: t() }) } else { None } }
    fn verdict(r: Result<(), FormatError>, code: &str, expected_err: bool) {
        match r {
            Ok(()) => assert!(!expected_err, "post_rule_rejects_when_documented_predicate_is_broken"),
            Err(e) => {
                assert!(expected_err, "post_rule_accepts_when_documented_predicate_holds");
                let c = code.as_bytes();
                assert!(e.code[0] == c[0] && e.code[1] == c[1] && e.code[2] == c[2] && e.code[3] == c[3] && e.code[4] == c[4], "post_reported_code_names_the_rule");
            }
        }
    }
    fn problem(shift: VehicleShift, costs: VehicleCosts) -> Problem { Problem { fleet: Fleet { vehicles: [VehicleType { type_id: TypeId(1), costs, shifts: [shift] }] } } }
    fn ok_costs() -> VehicleCosts { VehicleCosts { time: 1., distance: 1. } }
    fn plain_shift() -> VehicleShift { VehicleShift { start: ShiftStart { earliest: Stamp(0), latest: None }, time: None, breaks: None, reloads: None } }

    /// E1304 as documented: reload windows follow the job time-window rule EXCEPT that they may intersect each other, and every one
    /// has to touch the shift's time (when the shift's own time is well-formed; a malformed one is E1302's business)
    fn tok(a: &Option<TimeWindow>, b: &Option<TimeWindow>, n: usize) -> Tws {
        let f = |x: &Option<TimeWindow>| match x { Some(t) => (1u8, (t.start, t.end)), None => (0u8, (0., 0.)) };
        let (a, b) = (f(a), f(b));
        Tws { ok: [a.0, b.0], w: [a.1, b.1], n }
    }
    fn e1304(w: [Option<TimeWindow>; 2], shift_time: Option<TimeWindow>, split: bool) {
        // two windows: either both in the first reload (the second has no `times`) or one in each of two reloads
        let reloads = if split { [VehicleReload { times: Some(tok(&w[0], &None, 1)) }, VehicleReload { times: Some(tok(&w[1], &None, 1)) }] }
                      else { [VehicleReload { times: Some(tok(&w[0], &w[1], 2)) }, VehicleReload { times: None }] };
        let p = problem(VehicleShift { time: shift_time.clone(), reloads: Some(reloads), ..plain_shift() }, ok_costs());
        let r = check_e1304_vehicle_reload_time_is_correct(&ValidationContext { problem: &p });
        let well_formed = |x: &Option<TimeWindow>| match x { Some(a) => a.start <= a.end, None => false };
        let touches = |x: &Option<TimeWindow>| match (x, &shift_time) { (Some(a), Some(s)) => a.start <= s.end && s.start <= a.end, _ => true };
        let ok = well_formed(&w[0]) && well_formed(&w[1]) && touches(&w[0]) && touches(&w[1]);
        verdict(r, "E1304", !ok);
        kani::cover!(ok && w[0].as_ref().unwrap().start <= w[1].as_ref().unwrap().end && w[1].as_ref().unwrap().start <= w[0].as_ref().unwrap().end);   // intersecting reloads accepted
        kani::cover!(!ok);
    }
    #[kani::proof] #[kani::unwind(5)] fn e1304_two_windows_in_one_reload() { e1304([any_tw(), any_tw()], any_tw(), false) }
    #[kani::proof] #[kani::unwind(5)] fn e1304_one_window_in_each_of_two_reloads() { e1304([any_tw(), any_tw()], any_tw(), true) }
    /// no reloads / reloads without times: accepted (two constant shapes: a symbolic presence of the list does not finish in CBMC)
    #[kani::proof] #[kani::unwind(5)]
    fn e1304_no_reloads() {
        let p = problem(VehicleShift { time: any_tw(), reloads: None, ..plain_shift() }, ok_costs());
        verdict(check_e1304_vehicle_reload_time_is_correct(&ValidationContext { problem: &p }), "E1304", false);
    }
    #[kani::proof] #[kani::unwind(5)]
    fn e1304_reloads_without_times() {
        let p = problem(VehicleShift { time: any_tw(), reloads: Some([VehicleReload { times: None }, VehicleReload { times: None }]), ..plain_shift() }, ok_costs());
        verdict(check_e1304_vehicle_reload_time_is_correct(&ValidationContext { problem: &p }), "E1304", false);
    }
    /// E1306: a vehicle type whose time AND distance costs are both zero is rejected
    #[kani::proof] #[kani::unwind(4)]
    fn e1306_zero_costs() {
        let (time, distance): (Float, Float) = (kani::any(), kani::any());
        kani::assume(!time.is_nan() && !distance.is_nan());
        let p = problem(plain_shift(), VehicleCosts { time, distance });
        verdict(check_e1306_vehicle_has_no_zero_costs(&ValidationContext { problem: &p }), "E1306", time == 0. && distance == 0.);
    }
    /// E1307: a break given by time offset needs start.latest == start.earliest
    #[kani::proof] #[kani::unwind(4)]
    fn e1307_offset_break_needs_fixed_departure() {
        let kind: u8 = kani::any(); kani::assume(kind < 4);
        let br = match kind {
            0 => VehicleBreak::Required { time: VehicleRequiredBreakTime::OffsetTime { earliest: 1., latest: 2. }, duration: 1. },
            1 => VehicleBreak::Required { time: VehicleRequiredBreakTime::ExactTime { earliest: Stamp(1), latest: Stamp(2) }, duration: 1. },
            2 => VehicleBreak::Optional { time: VehicleOptionalBreakTime::TimeOffset(vec![1., 2.]) },
            _ => VehicleBreak::Optional { time: VehicleOptionalBreakTime::TimeWindow(vec![Stamp(1), Stamp(2)]) },
        };
        let earliest = Stamp(kani::any());
        let latest = if kani::any() { Some(Stamp(kani::any())) } else { None };
        let has_breaks: bool = kani::any();
        let p = problem(VehicleShift { start: ShiftStart { earliest, latest }, time: None, breaks: if has_breaks { Some([br]) } else { None }, reloads: None }, ok_costs());
        let offset = kind == 0 || kind == 2;
        let fixed = latest == Some(earliest);
        verdict(check_e1307_vehicle_offset_break_rescheduling(&ValidationContext { problem: &p }), "E1307", has_breaks && offset && !fixed);
    }
}
