// U07a/U07b – Iterative::run loop guards + MaxGeneration / MaxTime / CompositeTermination (verbatim) in a stub rosomaxa environment
#![allow(dead_code, unused_variables, unused_macros, unused_imports)]
use std::fmt::Display;
use std::marker::PhantomData;
use std::sync::Arc;
macro_rules! format { ($($t:tt)*) => { String::new() } }   // message text dropped
pub type Float = f64;
pub type GenericError = String;
pub struct TelemetryMetrics;
pub type EvolutionResult<S> = Result<(Vec<S>, Option<TelemetryMetrics>), GenericError>;
/// wall clock (real: std::time::Instant wrapper): elapsed time is an arbitrary finite non-negative number under Kani
pub struct Timer { pub elapsed: Float }
impl Timer {
    pub fn start() -> Self { Timer { elapsed: 0. } }
    pub fn elapsed_secs_as_float(&self) -> Float { self.elapsed }
}
pub trait Quota: Send + Sync { fn is_reached(&self) -> bool; }
pub struct Environment { pub quota: Option<Arc<dyn Quota>>, pub logger: Arc<dyn Fn(&str) + Send + Sync> }
#[derive(PartialEq, Eq, Clone, Copy)] pub enum SelectionPhase { Initial, Exploration, Exploitation }
pub trait HeuristicObjective: Send + Sync { type Solution; }
pub trait HeuristicSolution: Send + Sync { fn deep_copy(&self) -> Self; }
pub struct HeuristicStatistics { pub generation: usize }
pub trait HeuristicPopulationLike<S> { fn ranked(&self) -> Box<dyn Iterator<Item = &'_ S> + '_>; }
pub trait HeuristicContext: Send + Sync {
    type Objective: HeuristicObjective<Solution = Self::Solution>;
    type Solution: HeuristicSolution;
    fn selected(&self) -> Box<dyn Iterator<Item = &'_ Self::Solution> + '_>;
    fn statistics(&self) -> &HeuristicStatistics;
    fn selection_phase(&self) -> SelectionPhase;
    fn environment(&self) -> &Environment;
    fn on_generation(&mut self, offspring: Vec<Self::Solution>, termination_estimate: Float, generation_time: Timer);
    fn on_result(self) -> Result<(Box<dyn HeuristicPopulationLike<Self::Solution>>, Option<TelemetryMetrics>), GenericError>;
}
pub trait HyperHeuristic: Display {
    type Context: HeuristicContext<Objective = Self::Objective, Solution = Self::Solution>;
    type Objective: HeuristicObjective<Solution = Self::Solution>;
    type Solution: HeuristicSolution;
    fn search_many(&mut self, heuristic_ctx: &Self::Context, solutions: Vec<&Self::Solution>) -> Vec<Self::Solution>;
    fn diversify_many(&self, heuristic_ctx: &Self::Context, solutions: Vec<&Self::Solution>) -> Vec<Self::Solution>;
}
pub trait Termination: Send + Sync {
    type Context: HeuristicContext<Objective = Self::Objective>;
    type Objective: HeuristicObjective;
    fn is_termination(&self, heuristic_ctx: &mut Self::Context) -> bool;
    fn estimate(&self, heuristic_ctx: &Self::Context) -> Float;
}
pub trait EvolutionStrategy {
    type Context: HeuristicContext<Objective = Self::Objective, Solution = Self::Solution>;
    type Objective: HeuristicObjective<Solution = Self::Solution>;
    type Solution: HeuristicSolution;
    fn run(&mut self, heuristic_ctx: Self::Context, termination: Box<dyn Termination<Context = Self::Context, Objective = Self::Objective>>) -> EvolutionResult<Self::Solution>;
}

// ------------------------------------------------------------------ code under contract (verbatim from /repo)
//@extract rosomaxa/src/evolution/strategies/iterative.rs :: struct Iterative
//@end
//@extract rosomaxa/src/evolution/strategies/iterative.rs :: impl<C, O, S> Iterative<C, O, S>
//@end
//@extract rosomaxa/src/evolution/strategies/iterative.rs :: impl<C, O, S> EvolutionStrategy for Iterative<C, O, S>
//@end
//@extract rosomaxa/src/termination/max_generation.rs :: *
//@end
//@extract rosomaxa/src/termination/max_time.rs :: *
//@end
//@extract rosomaxa/src/termination/mod.rs :: struct CompositeTermination
//@end
//@extract rosomaxa/src/termination/mod.rs :: impl<C, O, S> CompositeTermination<C, O, S>
//@end
//@extract rosomaxa/src/termination/mod.rs :: impl<C, O, S> Termination for CompositeTermination<C, O, S>
//@end

#[cfg(kani)]
mod h {
    use super::*;
    use std::cell::Cell;
    use std::sync::atomic::{AtomicUsize, Ordering};
    struct Obj; impl HeuristicObjective for Obj { type Solution = Sol; }
    #[derive(Clone)] struct Sol(u8); impl HeuristicSolution for Sol { fn deep_copy(&self) -> Self { Sol(self.0) } }
    struct Q { polls: AtomicUsize, fire_at: usize }
    impl Quota for Q { fn is_reached(&self) -> bool { let p = self.polls.fetch_add(1, Ordering::SeqCst); p >= self.fire_at } }
    struct Pop(Vec<Sol>); impl HeuristicPopulationLike<Sol> for Pop { fn ranked(&self) -> Box<dyn Iterator<Item = &'_ Sol> + '_> { Box::new(self.0.iter()) } }
    struct Ctx { stats: HeuristicStatistics, env: Environment, pop: Vec<Sol>, phase: SelectionPhase }
    impl HeuristicContext for Ctx {
        type Objective = Obj; type Solution = Sol;
        fn selected(&self) -> Box<dyn Iterator<Item = &'_ Sol> + '_> { Box::new(self.pop.iter().take(1)) }
        fn statistics(&self) -> &HeuristicStatistics { &self.stats }
        fn selection_phase(&self) -> SelectionPhase { self.phase }
        fn environment(&self) -> &Environment { &self.env }
        fn on_generation(&mut self, offspring: Vec<Sol>, _: Float, _: Timer) { self.stats.generation += 1; if let Some(s) = offspring.into_iter().next() { self.pop[0] = s; } }
        fn on_result(self) -> Result<(Box<dyn HeuristicPopulationLike<Sol>>, Option<TelemetryMetrics>), GenericError> { Ok((Box::new(Pop(self.pop)), None)) }
    }
    struct H { searches: Arc<AtomicUsize> }
    impl Display for H { fn fmt(&self, f: &mut std::fmt::Formatter<'_>) -> std::fmt::Result { Ok(()) } }
    impl HyperHeuristic for H {
        type Context = Ctx; type Objective = Obj; type Solution = Sol;
        fn search_many(&mut self, _: &Ctx, s: Vec<&Sol>) -> Vec<Sol> { self.searches.fetch_add(1, Ordering::SeqCst); s.into_iter().map(|x| x.deep_copy()).collect() }
        fn diversify_many(&self, _: &Ctx, _: Vec<&Sol>) -> Vec<Sol> { Vec::new() }
    }
    /// C07: the loop body runs only while neither the termination criterion nor the quota says stop; with
    /// MaxGeneration(limit) and a quota that fires at an arbitrary poll index k the number of generations is
    /// exactly min(limit, k) (never more than the configured maximum) and `run` returns Ok with the ranked prefix
    #[kani::proof] #[kani::unwind(6)]
    fn run_respects_max_generations_and_quota() {
        let limit: usize = kani::any(); kani::assume(limit <= 3);
        let fire_at: usize = kani::any(); kani::assume(fire_at <= 4);
        let has_quota: bool = kani::any();
        let searches = Arc::new(AtomicUsize::new(0));
        let env = Environment { quota: if has_quota { Some(Arc::new(Q { polls: AtomicUsize::new(0), fire_at })) } else { None }, logger: Arc::new(|_| {}) };
        let ctx = Ctx { stats: HeuristicStatistics { generation: 0 }, env, pop: vec![Sol(7)], phase: SelectionPhase::Exploitation };
        let mut it = Iterative::new(Box::new(H { searches: searches.clone() }), 1);
        let r = it.run(ctx, Box::new(MaxGeneration::<Ctx, Obj, Sol>::new(limit)));
        assert!(r.is_ok(), "post_run_returns_normally");
        let n = searches.load(Ordering::SeqCst);
        assert!(n <= limit, "post_never_more_generations_than_configured_maximum");
        if has_quota { assert!(n <= fire_at, "post_no_generation_after_quota_reached"); assert!(n == limit.min(fire_at), "post_generations_is_min_of_limit_and_quota"); } else { assert!(n == limit, "post_generations_is_limit"); }
        assert!(r.unwrap().0.len() == 1, "post_result_is_ranked_prefix");
        kani::cover!(has_quota && fire_at < limit);
        kani::cover!(!has_quota && limit == 3);
    }

    fn ctx(generation: usize) -> Ctx {
        Ctx { stats: HeuristicStatistics { generation }, env: Environment { quota: None, logger: Arc::new(|_| {}) }, pop: vec![], phase: SelectionPhase::Initial }
    }

    /// MaxGeneration: fires iff generation >= limit (complete: loop-free, all usize)
    #[kani::proof]
    fn max_generation_fires_iff_limit_reached() {
        let (generation, limit): (usize, usize) = (kani::any(), kani::any());
        let t = MaxGeneration::<Ctx, Obj, Sol>::new(limit);
        let mut c = ctx(generation);
        assert!(t.is_termination(&mut c) == (generation >= limit), "post_max_generation_fires_iff_limit_reached");
    }

    /// MaxGeneration: estimate in [0,1], equals 1 once terminated; positive limit (C07), generation and limit < 2^16
    /// (float division makes the full usize domain intractable for CBMC: bounded)
    #[kani::proof]
    fn max_generation_contract() {
        let (g16, l16): (u16, u16) = (kani::any(), kani::any());
        kani::assume(l16 >= 1);
        let (generation, limit) = (g16 as usize, l16 as usize);
        let t = MaxGeneration::<Ctx, Obj, Sol>::new(limit);
        let mut c = ctx(generation);
        let fired = t.is_termination(&mut c);
        let e = t.estimate(&c);
        assert!(fired == (generation >= limit), "post_max_generation_fires_iff_limit_reached");
        assert!(e >= 0. && e <= 1., "post_max_generation_estimate_in_unit_interval");
        if fired { assert!(e == 1., "post_max_generation_estimate_is_one_when_fired"); }
        kani::cover!(fired && limit > 0);
        kani::cover!(!fired);
    }

    /// C18: a zero limit is accepted by the configuration; the estimate must still be a number in [0,1] (0/0 and x/0 are
    /// absorbed by `min(1.)`, which ignores NaN)
    #[kani::proof]
    fn max_generation_estimate_with_zero_limit() {
        let g16: u16 = kani::any();
        let t = MaxGeneration::<Ctx, Obj, Sol>::new(0);
        let c = ctx(g16 as usize);
        let e = t.estimate(&c);
        assert!(e >= 0. && e <= 1., "post_max_generation_estimate_in_unit_interval");
        kani::cover!(g16 == 0); kani::cover!(g16 > 0);
    }
    #[kani::proof]
    fn max_time_estimate_with_zero_limit() {
        let e8: u16 = kani::any();
        let mut t = MaxTime::<Ctx, Obj, Sol>::new(0.);
        t.start = Timer { elapsed: e8 as Float / 8. };
        let e = t.estimate(&ctx(0));
        assert!(e >= 0. && e <= 1., "post_max_time_estimate_in_unit_interval");
        kani::cover!(e8 == 0); kani::cover!(e8 > 0);
    }

    /// MaxTime: fires iff elapsed > limit, for every finite elapsed >= 0 and limit >= 0 (complete: loop-free)
    #[kani::proof]
    fn max_time_fires_iff_limit_exceeded() {
        let (elapsed, limit): (Float, Float) = (kani::any(), kani::any());
        kani::assume(elapsed.is_finite() && elapsed >= 0. && limit.is_finite() && limit >= 0.);
        let mut t = MaxTime::<Ctx, Obj, Sol>::new(limit);
        t.start = Timer { elapsed };
        let mut c = ctx(0);
        assert!(t.is_termination(&mut c) == (elapsed > limit), "post_max_time_fires_iff_limit_exceeded");
    }

    /// MaxTime: estimate in [0,1], 1 once fired; positive limit (C07); times are multiples of 1/8 s below 8192 s
    /// (float division: bounded domain)
    #[kani::proof]
    fn max_time_contract() {
        let (e16, l16): (u16, u16) = (kani::any(), kani::any());
        kani::assume(l16 >= 1);
        let (elapsed, limit) = (e16 as Float / 8., l16 as Float / 8.);
        let mut t = MaxTime::<Ctx, Obj, Sol>::new(limit);
        t.start = Timer { elapsed };
        let mut c = ctx(0);
        let fired = t.is_termination(&mut c);
        let e = t.estimate(&c);
        assert!(fired == (elapsed > limit), "post_max_time_fires_iff_limit_exceeded");
        assert!(e >= 0. && e <= 1., "post_max_time_estimate_in_unit_interval");
        if fired { assert!(e == 1., "post_max_time_estimate_is_one_when_fired"); }
        kani::cover!(fired);
        kani::cover!(!fired && limit > 0.);
    }

    /// CompositeTermination: fires iff some member fires; estimate = max of the members (bounded: <= 3 members)
    struct Fixed { fire: bool, est: Float }
    impl Termination for Fixed {
        type Context = Ctx; type Objective = Obj;
        fn is_termination(&self, _: &mut Ctx) -> bool { self.fire }
        fn estimate(&self, _: &Ctx) -> Float { self.est }
    }
    #[kani::proof] #[kani::unwind(6)]
    fn composite_termination_contract() {
        let n: usize = kani::any();
        kani::assume(n <= 3);
        let fires: [bool; 3] = kani::any();
        let ests: [Float; 3] = core::array::from_fn(|_| { let v: Float = kani::any(); kani::assume(v >= 0. && v <= 1.); v });
        let mut members: Vec<Box<dyn Termination<Context = Ctx, Objective = Obj>>> = Vec::new();
        let mut i = 0;
        while i < n { members.push(Box::new(Fixed { fire: fires[i], est: ests[i] })); i += 1; }
        let t = CompositeTermination::<Ctx, Obj, Sol>::new(members);
        let mut c = ctx(0);
        let (mut any, mut max) = (false, 0.);
        let mut i = 0;
        while i < n { any = any || fires[i]; if ests[i] > max { max = ests[i]; } i += 1; }
        assert!(t.is_termination(&mut c) == any, "post_composite_fires_iff_any_member_fires");
        let e = t.estimate(&c);
        assert!(e == max, "post_composite_estimate_is_max_of_members");
        assert!(e >= 0. && e <= 1., "post_composite_estimate_in_unit_interval");
        kani::cover!(n == 3 && any);
    }
}
