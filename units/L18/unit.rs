// L18 – history link for the slot-machine step contract (U18a): if every update step satisfies
//   alpha' = alpha + 1/2   and   beta <= beta' <= beta + K      (K = 1.011 * R^2, R = 10^4)
// then after n updates from the initial state (alpha = 1, beta = 10):  2*alpha = 2 + n  and  10 <= beta <= 10 + n*K,
// hence for n < 2^40 the state stays inside the box the step contract assumes (alpha <= 2^50, beta <= 10^22).
// Integers/rationals are mathematical here (doubled alpha avoids fractions); the float step facts are U18a.
use vstd::prelude::*;
verus! {

pub struct St { pub alpha2: int, pub beta: int, pub n: nat }   // alpha2 = 2*alpha
pub spec const K: int = 101_100_000;                           // 1.011 * (10^4)^2
pub open spec fn init() -> St { St { alpha2: 2, beta: 10, n: 0 } }
pub open spec fn step(a: St, b: St) -> bool { b.alpha2 == a.alpha2 + 1 && a.beta <= b.beta <= a.beta + K && b.n == a.n + 1 }
pub open spec fn inv(s: St) -> bool { s.alpha2 == 2 + s.n && 10 <= s.beta <= 10 + s.n * K }

pub proof fn lemma_init() ensures inv(init()) {}
pub proof fn lemma_step(a: St, b: St) requires inv(a), step(a, b) ensures inv(b) {
    assert((a.n + 1) * K == a.n * K + K) by (nonlinear_arith);
}
/// a history = any sequence of states linked by steps
pub open spec fn history(h: Seq<St>) -> bool { h.len() > 0 && h[0] == init() && forall|i: int| 0 <= i < h.len() - 1 ==> step(#[trigger] h[i], h[i + 1]) }
pub proof fn lemma_history(h: Seq<St>, k: int)
    requires history(h), 0 <= k < h.len()
    ensures inv(h[k]), h[k].n == k
    decreases k
{
    if k > 0 { lemma_history(h, k - 1); lemma_step(h[k - 1], h[k]); }
}
/// inside the box of the step contract for every n < 2^40
pub proof fn lemma_box(s: St)
    requires inv(s), s.n < 0x100_0000_0000
    ensures 2 <= s.alpha2 <= 2 * 0x4_0000_0000_0000, 10 <= s.beta <= 10_000_000_000_000_000_000_000
{
    assert(s.n * K <= 0x100_0000_0000 * K) by (nonlinear_arith) requires s.n < 0x100_0000_0000, K == 101_100_000;
}

// vacuity guard: must be REJECTED
pub proof fn vacuity_step_changes_state(a: St, b: St) requires inv(a), step(a, b) { assert(b.beta == a.beta); }

} // verus!
fn main() {}
