// U15b – the FOLD step of parallel insertion evaluation: eval_job_insertion_in_route never returns something worse than
// the alternative accumulated so far (verbatim body, Verus, deterministic best-selector instance)
#![allow(unused_imports, dead_code)]
use vstd::prelude::*;
use vstd::std_specs::cmp::*;
use core::cmp::Ordering;
use std::collections::HashMap;
verus! {

// ---------------------------------------------------------------- environment (assumed)
pub axiom fn ax_job_key_model() ensures vstd::std_specs::hash::obeys_key_model::<Job>();
#[derive(PartialEq, Eq, Hash, Clone, Copy)] pub struct Job { pub id: u64 }
pub struct InsertionCost { pub rank: int, pub payload: int }
pub open spec fn ord_of(a: int, b: int) -> Ordering { if a < b { Ordering::Less } else if a == b { Ordering::Equal } else { Ordering::Greater } }
impl PartialEqSpecImpl for InsertionCost { open spec fn obeys_eq_spec() -> bool { true } open spec fn eq_spec(&self, o: &InsertionCost) -> bool { self.rank == o.rank } }
impl PartialOrdSpecImpl for InsertionCost { open spec fn obeys_partial_cmp_spec() -> bool { true } open spec fn partial_cmp_spec(&self, o: &InsertionCost) -> Option<Ordering> { Some(ord_of(self.rank, o.rank)) } }
impl core::cmp::PartialEq for InsertionCost { #[verifier::external_body] fn eq(&self, o: &Self) -> (r: bool) { unimplemented!() } }
impl core::cmp::PartialOrd for InsertionCost { #[verifier::external_body] fn partial_cmp(&self, o: &Self) -> (r: Option<Ordering>) { unimplemented!() } }
impl Clone for InsertionCost { #[verifier::external_body] fn clone(&self) -> (r: Self) ensures r == *self { unimplemented!() } }
#[derive(Clone, Copy)] pub struct ViolationCode(pub i32);
pub struct ConstraintViolation { pub code: ViolationCode, pub stopped: bool }
pub struct InsertionSuccess { pub cost: InsertionCost, pub id: int }
pub struct InsertionFailure { pub constraint: ViolationCode, pub stopped: bool }
pub enum InsertionResult { Success(InsertionSuccess), Failure(InsertionFailure) }
pub enum Either<L, R> { Left(L), Right(R) }
pub enum UnassignmentInfo { Unknown, Simple(ViolationCode), Detailed(int) }
pub struct SolutionContext { pub unassigned: HashMap<Job, UnassignmentInfo> }
pub struct GoalContext { pub token: int }
pub struct Problem { pub goal: GoalContext }
/// real: problem: Arc<Problem>
pub struct InsertionContext { pub problem: Box<Problem>, pub solution: SolutionContext }
pub struct RouteContext { pub stale: bool }
impl RouteContext { pub fn is_stale(&self) -> (r: bool) ensures r == self.stale { self.stale } }
pub struct MoveContext<'a> { pub solution_ctx: &'a SolutionContext, pub route_ctx: &'a RouteContext, pub job: &'a Job }
impl<'a> MoveContext<'a> {
    pub fn route(solution_ctx: &'a SolutionContext, route_ctx: &'a RouteContext, job: &'a Job) -> (r: MoveContext<'a>) { MoveContext { solution_ctx, route_ctx, job } }
}
impl GoalContext {
    /// route-level gate and route-level cost quote: arbitrary (uninterpreted) results
    #[verifier::external_body] pub fn evaluate(&self, move_ctx: &MoveContext<'_>) -> (r: Option<ConstraintViolation>) { unimplemented!() }
    #[verifier::external_body] pub fn estimate(&self, move_ctx: &MoveContext<'_>) -> (r: InsertionCost) { unimplemented!() }
}
pub struct LegSelection { pub token: int }
#[derive(Clone, Copy)] pub enum InsertionPosition { Any, Concrete(usize), Last }

pub open spec fn cost_of(r: InsertionResult) -> Option<int> { match r { InsertionResult::Success(s) => Some(s.cost.rank), InsertionResult::Failure(_) => None } }
pub open spec fn min_opt(a: Option<int>, b: Option<int>) -> Option<int> {
    match (a, b) { (None, _) => b, (_, None) => a, (Some(x), Some(y)) => Some(if x <= y { x } else { y }) }
}
/// contract of the reducer, proved for choose_best_result / BestResultSelector::select_insertion / select_cost in U15a
pub open spec fn red_rel(left: InsertionResult, right: InsertionResult, out: InsertionResult) -> bool {
    (out == left || out == right) && cost_of(out) == min_opt(cost_of(left), cost_of(right))
}
/// deterministic selection (the property's premise): the best-result selector with its U15a contracts
pub struct BestResultSelector {}
impl BestResultSelector {
    #[verifier::external_body]
    pub fn select_insertion(&self, ctx: &InsertionContext, left: InsertionResult, right: InsertionResult) -> (r: InsertionResult)
        ensures red_rel(left, right, r) { unimplemented!() }
    #[verifier::external_body]
    pub fn select_cost<'a>(&self, left: &'a InsertionCost, right: &'a InsertionCost) -> (r: Either<&'a InsertionCost, &'a InsertionCost>)
        ensures match r { Either::Left(x) => x == left && left.rank <= right.rank, Either::Right(x) => x == right && right.rank <= left.rank } { unimplemented!() }
}
pub struct EvaluationContext<'a> { pub goal: &'a GoalContext, pub job: &'a Job, pub leg_selection: &'a LegSelection, pub result_selector: &'a BestResultSelector }
impl InsertionResult {
    #[verifier::external_body]
    pub fn make_failure_with_code(code: ViolationCode, stopped: bool, job: Option<Job>) -> (r: Self) ensures r is Failure { unimplemented!() }
    pub fn as_success(&self) -> (r: Option<&InsertionSuccess>)
        ensures match *self { InsertionResult::Success(s) => r == Some(&s), InsertionResult::Failure(_) => r is None }
    { match self { Self::Success(success) => Some(success), Self::Failure(_) => None } }
}
/// per-pair evaluation below the route level (legs, places, windows: unit U06a): an arbitrary result
#[verifier::external_body]
fn eval_job_constraint_in_route(eval_ctx: &EvaluationContext, solution_ctx: &SolutionContext, route_ctx: &RouteContext, position: InsertionPosition,
    route_costs: InsertionCost, best_known_cost: Option<InsertionCost>) -> (r: InsertionResult) { unimplemented!() }

pub open spec fn le_opt(a: Option<int>, b: Option<int>) -> bool { min_opt(a, b) == a }

// ---------------------------------------------------------------- code under contract (verbatim from /repo)
//@extract vrp-core/src/construction/heuristics/evaluators.rs :: fn eval_job_insertion_in_route ret=r vis=private
//@| ensures
//@|     // the fold step never loses what the accumulator already holds: the result is at least as cheap as `alternative`
//@|     le_opt(cost_of(r), cost_of(alternative)),
//@|     // and a failure is returned only if the accumulator held a failure
//@|     r is Failure ==> alternative is Failure,
//@prologue proof { ax_job_key_model(); }
//@end

// vacuity guard: must be REJECTED
proof fn vacuity_le_opt(a: Option<int>, b: Option<int>) requires le_opt(a, b) { assert(a == b); }

} // verus!
fn main() {}
