// U10d – relation validation rules E1200, E1201, E1202, E1204, E1205, E1206 (validation/relations.rs, verbatim) and
// is_reserved_job_id (validation/mod.rs, verbatim) against the documented rules (docs/src/concepts/pragmatic/errors/index.md)
#![allow(dead_code, unused_macros, unused_variables, unused_imports)]
macro_rules! format { ($($t:tt)*) => { () } } // message text dropped (the error CODE is what the property speaks about)
const VERIF_MAP_CAP: usize = 4;
#[path = "@VERIF_ENV@/collections_fixed_n.rs"]
mod verif_env;
use verif_env::HashMap;
#[path = "@VERIF_ENV@/strings.rs"]
mod verif_strings;
use verif_strings::String;
const VERIF_VEC_CAP: usize = 4;
#[path = "@VERIF_ENV@/vec_fixed.rs"]
mod verif_vec;
use verif_vec::Vec;
#[path = "@VERIF_ENV@/eager.rs"]
mod verif_eager;
use verif_eager::FlatMapEager;

// ------------------------------------------------------------------ environment (assumed)
/// the model's lists are inline arrays (the rules only iterate them); 2 ids per relation, 2 shifts per vehicle type
pub struct Relation { pub jobs: Vec<String>, pub vehicle_id: String, pub shift_index: Option<usize> }
/// presence flags of the optional shift properties (real: Option<Vec<VehicleBreak>>, Option<Vec<VehicleReload>>, Option<ShiftEnd>)
pub struct VehicleShift { pub breaks: Option<u8>, pub reloads: Option<u8>, pub end: Option<u8> }
/// a list of 1 or 2 shifts (real: Vec<VehicleShift>); behaves as the slice of its first `n` items
pub struct ShiftList { pub items: [VehicleShift; 2], pub n: usize }
impl std::ops::Deref for ShiftList { type Target = [VehicleShift]; fn deref(&self) -> &[VehicleShift] { &self.items[..self.n] } }
pub struct VehicleType { pub shifts: ShiftList }
pub struct Job { pub id: String }
pub struct ValidationContext { pub job_index: HashMap<String, Job> }
pub struct FormatError { pub code: [u8; 5] }
impl FormatError { pub fn new<A, B>(code: std::string::String, _cause: A, _action: B) -> Self { let b = code.as_bytes(); Self { code: [b[0], b[1], b[2], b[3], b[4]] } } }

// ------------------------------------------------------------------ code under contract (verbatim from /repo)
//@extract vrp-pragmatic/src/validation/mod.rs :: fn is_reserved_job_id
//@end
//@extract vrp-pragmatic/src/validation/relations.rs :: fn check_e1200_job_existence
//@subst ".flat_map(" => ".flat_map_eager(" count=1
//@end
//@extract vrp-pragmatic/src/validation/relations.rs :: fn check_e1201_vehicle_existence
//@end
//@extract vrp-pragmatic/src/validation/relations.rs :: fn check_e1202_empty_job_list
//@end
//@extract vrp-pragmatic/src/validation/relations.rs :: fn check_e1204_job_assigned_to_multiple_vehicles
//@subst ".flat_map(" => ".flat_map_eager(" count=1
//@end
//@extract vrp-pragmatic/src/validation/relations.rs :: fn check_e1205_relation_has_correct_shift_index
//@end
//@extract vrp-pragmatic/src/validation/relations.rs :: fn check_e1206_relation_has_no_missing_shift_properties
//@end

#[cfg(kani)]
mod h {
    use super::*;
    const DEPARTURE: u8 = 0; const ARRIVAL: u8 = 1; const BREAK: u8 = 2; const RELOAD: u8 = 3; const JOB1: u8 = 4; const JOB2: u8 = 5; const V1: u8 = 6; const V2: u8 = 7;
    fn job_id() -> String { let i: u8 = kani::any(); kani::assume(i <= JOB2); String(i) }
    fn vehicle_id() -> String { let i: u8 = kani::any(); kani::assume(i == V1 || i == V2); String(i) }
    fn reserved(s: String) -> bool { s.0 <= RELOAD }
    fn relation() -> Relation {
        let shift_index = if kani::any() { let i: u8 = kani::any(); kani::assume(i < 3); Some(i as usize) } else { None };
        Relation { jobs: [job_id(), job_id()].into_iter().collect(), vehicle_id: vehicle_id(), shift_index }
    }
    fn vehicle_type(n: usize) -> VehicleType { VehicleType { shifts: ShiftList { items: [VehicleShift { breaks: opt(), reloads: opt(), end: opt() }, VehicleShift { breaks: opt(), reloads: opt(), end: opt() }], n } } }
    /// a relation whose two ids are picked from the given ones
    fn relation_of(ids: &[u8]) -> Relation {
        let pick = || { let i: usize = kani::any(); kani::assume(i < ids.len()); String(ids[i]) };
        let shift_index = if kani::any() { let i: u8 = kani::any(); kani::assume(i < 3); Some(i as usize) } else { None };
        Relation { jobs: [pick(), pick()].into_iter().collect(), vehicle_id: vehicle_id(), shift_index }
    }
    fn opt() -> Option<u8> { if kani::any() { Some(1) } else { None } }
    fn code(r: &Result<(), FormatError>) -> Option<[u8; 5]> { match r { Ok(()) => None, Err(e) => Some(e.code) } }
    fn expect(r: Result<(), FormatError>, broken: bool, c: &[u8; 5]) {
        assert!(r.is_err() == broken, "post_rule_rejects_exactly_when_the_documented_rule_is_broken");
        if let Err(e) = &r { assert!(e.code == *c, "post_reported_code_names_the_rule"); }
        kani::cover!(broken); kani::cover!(!broken);
    }

    /// reserved ids are exactly the four documented ones
    #[kani::proof] #[kani::unwind(12)]
    fn reserved_ids_are_the_four_documented() {
        let mut i = 0u8;
        while i < 8 { assert!(is_reserved_job_id(&String(i)) == (i <= RELOAD), "post_reserved_ids_are_departure_arrival_break_reload"); i += 1; }
    }

    /// E1200: a relation names a (non reserved) job id that is not in the plan
    #[kani::proof] #[kani::unwind(12)]
    fn e1200_job_ids_exist_in_plan() {
        let rels = [relation_of(&[BREAK, JOB1, JOB2])];
        let (has1, has2): (bool, bool) = (kani::any(), kani::any());
        let mut job_index: HashMap<String, Job> = Default::default();
        if has1 { job_index.insert(String(JOB1), Job { id: String(JOB1) }); }
        if has2 { job_index.insert(String(JOB2), Job { id: String(JOB2) }); }
        let ctx = ValidationContext { job_index };
        let known = |s: String| reserved(s) || (s.0 == JOB1 && has1) || (s.0 == JOB2 && has2);
        let broken = rels.iter().any(|r| r.jobs.iter().any(|j| !known(*j)));
        expect(check_e1200_job_existence(&ctx, &rels), broken, b"E1200");
    }

    /// E1201: a relation names a vehicle id that is not in the fleet
    #[kani::proof] #[kani::unwind(12)]
    fn e1201_vehicle_ids_exist_in_fleet() {
        let rels = [relation(), relation()];
        let vt = vehicle_type(1);
        let (has1, has2): (bool, bool) = (kani::any(), kani::any());
        let mut vehicle_map: HashMap<String, &VehicleType> = Default::default();
        if has1 { vehicle_map.insert(String(V1), &vt); }
        if has2 { vehicle_map.insert(String(V2), &vt); }
        let broken = rels.iter().any(|r| !((r.vehicle_id.0 == V1 && has1) || (r.vehicle_id.0 == V2 && has2)));
        expect(check_e1201_vehicle_existence(&rels, &vehicle_map), broken, b"E1201");
    }

    /// E1202: a relation whose job list holds nothing but reserved ids
    #[kani::proof] #[kani::unwind(12)]
    fn e1202_no_relation_without_jobs() {
        let rels = [relation(), relation()];
        let broken = rels.iter().any(|r| reserved(r.jobs[0]) && reserved(r.jobs[1]));
        expect(check_e1202_empty_job_list(&rels), broken, b"E1202");
    }

    /// E1204: a job is named by relations of different vehicles
    #[kani::proof] #[kani::unwind(12)]
    fn e1204_job_bound_to_one_vehicle() {
        let rels = [relation(), relation()];
        let mut broken = false;
        for a in 0..2 { for b in 0..2 { for i in 0..2 { for j in 0..2 {
            if !reserved(rels[a].jobs[i]) && rels[a].jobs[i] == rels[b].jobs[j] && rels[a].vehicle_id != rels[b].vehicle_id { broken = true; }
        } } } }
        expect(check_e1204_job_assigned_to_multiple_vehicles(&rels), broken, b"E1204");
    }

    /// E1205: the relation's shift index (default 0) does not name a shift of its vehicle
    fn e1205<const N: usize>() {
        let rels = [relation(), relation()];
        let vt = vehicle_type(N);
        let mut vehicle_map: HashMap<String, &VehicleType> = Default::default();
        vehicle_map.insert(String(V1), &vt); // vehicle_2 is unknown: E1201's business, not E1205's
        let broken = rels.iter().any(|r| r.vehicle_id.0 == V1 && r.shift_index.unwrap_or(0) >= N);
        expect(check_e1205_relation_has_correct_shift_index(&rels, &vehicle_map), broken, b"E1205");
    }
    #[kani::proof] #[kani::unwind(12)] fn e1205_shift_index_names_a_shift_of_1() { e1205::<1>() }
    #[kani::proof] #[kani::unwind(12)] fn e1205_shift_index_names_a_shift_of_2() { e1205::<2>() }

    /// E1206: a relation uses `break` / `reload` / `arrival` although the shift it names (default: the first) does not define
    /// breaks / reloads / an end
    #[kani::proof] #[kani::unwind(12)]
    fn e1206_reserved_ids_need_the_shift_property() {
        let rels = [relation_of(&[ARRIVAL, BREAK, RELOAD, JOB1])];
        let vt = vehicle_type(2);
        let mut vehicle_map: HashMap<String, &VehicleType> = Default::default();
        vehicle_map.insert(String(V1), &vt);
        let missing = |r: &Relation, s: &VehicleShift| r.jobs.iter().any(|j| (j.0 == BREAK && s.breaks.is_none()) || (j.0 == RELOAD && s.reloads.is_none()) || (j.0 == ARRIVAL && s.end.is_none()));
        let broken = rels.iter().any(|r| r.vehicle_id.0 == V1 && r.shift_index.unwrap_or(0) < 2 && missing(r, &vt.shifts.items[r.shift_index.unwrap_or(0)]));
        expect(check_e1206_relation_has_no_missing_shift_properties(&rels, &vehicle_map), broken, b"E1206");
        kani::cover!(rels[0].shift_index == Some(1) && rels[0].vehicle_id.0 == V1 && rels[0].jobs[0].0 == BREAK && vt.shifts.items[0].breaks.is_some() && vt.shifts.items[1].breaks.is_none());
    }
}
