// U08d – Rosomaxa population wrapper: Rosomaxa::add_all / add (rosomaxa.rs, verbatim) against the CONTRACT of its elite storage
// (Elitism, verified in U08b): every individual of a batch that is not worse than the best known is offered to the elite, all of
// them to the phase storage, and the elite's improvement verdict is returned
#![allow(dead_code, unused_variables, unused_imports)]
use std::cmp::Ordering;
use std::marker::PhantomData;
use std::sync::Arc;

// ------------------------------------------------------------------ environment (assumed)
pub type Float = f64;
pub trait HeuristicSolution: Send + Sync { fn deep_copy(&self) -> Self; }
pub trait HeuristicObjective: Send + Sync { type Solution; fn total_order(&self, a: &Self::Solution, b: &Self::Solution) -> Ordering; }
pub trait Alternative {}
pub trait Input {}
pub trait RosomaxaSolution: HeuristicSolution + Input { type Context: RosomaxaContext; fn on_init(&mut self, context: &Self::Context); fn on_update(&mut self, context: &Self::Context); }
pub trait RosomaxaContext: Send + Sync { type Solution: HeuristicSolution; fn on_change(&mut self, solutions: &[Self::Solution]); }
pub struct Environment;
pub struct RosomaxaConfig { pub elite_size: usize, pub selection_size: usize, pub node_size: usize }
pub struct HeuristicStatistics { pub generation: usize }
pub struct Coordinate(pub i32, pub i32);
/// ghost stand-in for the elite storage: records what it is offered; its verdict is arbitrary. Elitism::add_all's own contract
/// (keeps the best of old + offered, reports improvement) is U08b's
pub struct Elitism<O, S> { pub best: Option<S>, pub offered: Vec<S>, pub calls: usize, pub verdict: bool, pub phantom: PhantomData<O> }
impl<O, S> Elitism<O, S> {
    pub fn ranked(&self) -> impl Iterator<Item = &S> { self.best.iter() }
    pub fn add_all(&mut self, individuals: Vec<S>) -> bool { self.calls += 1; self.offered.extend(individuals); self.verdict }
}
/// ghost stand-in for the GSOM network: records the batch it is given
pub struct IndividualNetwork<C, O, S> { pub stored: Vec<S>, pub calls: usize, pub generation: usize, pub phantom: PhantomData<(C, O)> }
impl<C, O, S> IndividualNetwork<C, O, S> {
    pub fn store_batch(&mut self, _: &C, data: Vec<S>, generation: usize) { self.calls += 1; self.stored.extend(data); self.generation = generation; }
}
pub trait HeuristicPopulation { type Objective; type Individual; fn add_all(&mut self, individuals: Vec<Self::Individual>) -> bool; fn add(&mut self, individual: Self::Individual) -> bool; }

// ------------------------------------------------------------------ code under contract (verbatim from /repo)
//@extract rosomaxa/src/utils/parallel.rs :: mod actual#2/fn parallel_into_collect
//@end
//@extract rosomaxa/src/population/rosomaxa.rs :: struct Rosomaxa
//@end
//@extract rosomaxa/src/population/rosomaxa.rs :: enum RosomaxaPhases
//@end
//@extract rosomaxa/src/population/rosomaxa.rs :: fn init_individual
//@end
impl<C, O, S> HeuristicPopulation for Rosomaxa<C, O, S>
where
    C: RosomaxaContext<Solution = S>,
    O: HeuristicObjective<Solution = S> + Alternative,
    S: RosomaxaSolution<Context = C>,
{
    type Objective = O;
    type Individual = S;
//@extract rosomaxa/src/population/rosomaxa.rs :: impl<C, O, S> HeuristicPopulation for Rosomaxa<C, O, S>/fn add_all
//@end
//@extract rosomaxa/src/population/rosomaxa.rs :: impl<C, O, S> HeuristicPopulation for Rosomaxa<C, O, S>/fn add
//@end
}
impl<C, O, S> Rosomaxa<C, O, S>
where
    C: RosomaxaContext<Solution = S>,
    O: HeuristicObjective<Solution = S> + Alternative,
    S: RosomaxaSolution<Context = C>,
{
//@extract rosomaxa/src/population/rosomaxa.rs :: impl<C, O, S> Rosomaxa<C, O, S>/fn is_comparable_with_best_known
//@end
}

#[cfg(kani)]
mod h {
    use super::*;
    #[derive(Clone, Copy, PartialEq, Debug)] pub struct Sol { id: u8, fit: u8, inited: bool, copy: bool }
    impl HeuristicSolution for Sol { fn deep_copy(&self) -> Self { Sol { copy: true, ..*self } } }
    impl Input for Sol {}
    impl RosomaxaSolution for Sol { type Context = Ctx; fn on_init(&mut self, _: &Ctx) { self.inited = true; } fn on_update(&mut self, _: &Ctx) {} }
    pub struct Ctx { changes: usize, seen: usize }
    impl RosomaxaContext for Ctx { type Solution = Sol; fn on_change(&mut self, s: &[Sol]) { self.changes += 1; self.seen += s.len(); } }
    pub struct Obj; impl Alternative for Obj {}
    impl HeuristicObjective for Obj { type Solution = Sol; fn total_order(&self, a: &Sol, b: &Sol) -> Ordering { a.fit.cmp(&b.fit) } }
    fn sol(id: u8) -> Sol { let fit: u8 = kani::any(); kani::assume(fit < 4); Sol { id, fit, inited: false, copy: false } }

    fn run(phase: u8) {
        let best = if kani::any() { Some(sol(9)) } else { None };
        let elite_size: usize = kani::any(); kani::assume(elite_size >= 1 && elite_size <= 2);
        let ph = match phase {
            0 => RosomaxaPhases::Initial { solutions: vec![sol(7)] },
            1 => RosomaxaPhases::Exploration { network: IndividualNetwork { stored: Vec::new(), calls: 0, generation: 0, phantom: PhantomData }, coordinates: Vec::new(), statistics: HeuristicStatistics { generation: 5 }, selection_size: 2 },
            _ => RosomaxaPhases::Exploitation { selection_size: 2 },
        };
        let mut r: Rosomaxa<Ctx, Obj, Sol> = Rosomaxa { external_ctx: Ctx { changes: 0, seen: 0 }, objective: Arc::new(Obj), environment: Arc::new(Environment),
            config: RosomaxaConfig { elite_size, selection_size: 2, node_size: 2 },
            elite: Elitism { best, offered: Vec::new(), calls: 0, verdict: kani::any(), phantom: PhantomData }, phase: ph };
        let batch = [sol(0), sol(1), sol(2)];
        let verdict = r.elite.verdict;
        let improved = r.add_all(vec![batch[0], batch[1], batch[2]]);

        assert!(improved == verdict && r.elite.calls == 1, "post_returns_the_elite_verdict_of_one_offer");
        // every individual not worse than the best known is offered, as an initialised deep copy, in batch order; nothing else is
        let mut k = 0;
        let mut i = 0;
        while i < 3 {
            let comparable = match best { Some(b) => batch[i].fit <= b.fit, None => true };
            if comparable {
                assert!(k < r.elite.offered.len(), "post_every_comparable_individual_is_offered_to_the_elite");
                let o = r.elite.offered[k];
                assert!(o.id == batch[i].id && o.fit == batch[i].fit && o.inited && o.copy, "post_offered_are_initialised_deep_copies_in_batch_order");
                k += 1;
            }
            i += 1;
        }
        assert!(k == r.elite.offered.len(), "post_nothing_but_comparable_individuals_is_offered");
        match &r.phase {
            RosomaxaPhases::Initial { solutions } => {
                assert!(solutions.len() == 4 && solutions[0].id == 7 && solutions[1].id == 0 && solutions[2].id == 1 && solutions[3].id == 2, "post_initial_phase_keeps_every_individual");
                assert!(r.external_ctx.changes == 1 && r.external_ctx.seen == 3, "post_context_told_once_about_the_batch");
            }
            RosomaxaPhases::Exploration { network, .. } => {
                assert!(network.calls == 1 && network.generation == 5 && network.stored.len() == 3, "post_exploration_stores_the_whole_batch_once");
                assert!(network.stored[0].id == 0 && network.stored[1].id == 1 && network.stored[2].id == 2 && network.stored[0].inited && network.stored[1].inited && network.stored[2].inited, "post_stored_individuals_are_initialised");
                assert!(r.external_ctx.changes == 1 && r.external_ctx.seen == 3, "post_context_told_once_about_the_batch");
            }
            RosomaxaPhases::Exploitation { .. } => { assert!(r.external_ctx.changes == 0, "post_exploitation_touches_only_the_elite"); }
        }
        kani::cover!(k == 3);
        kani::cover!(k == 0);
    }
    #[kani::proof] #[kani::unwind(6)] fn add_all_initial_phase() { run(0) }
    #[kani::proof] #[kani::unwind(6)] fn add_all_exploration_phase() { run(1) }
    #[kani::proof] #[kani::unwind(6)] fn add_all_exploitation_phase() { run(2) }
    /// add(x) == add_all([x])
    #[kani::proof] #[kani::unwind(4)]
    fn add_is_add_all_of_one() {
        let best = if kani::any() { Some(sol(9)) } else { None };
        let mut r: Rosomaxa<Ctx, Obj, Sol> = Rosomaxa { external_ctx: Ctx { changes: 0, seen: 0 }, objective: Arc::new(Obj), environment: Arc::new(Environment),
            config: RosomaxaConfig { elite_size: 2, selection_size: 2, node_size: 2 },
            elite: Elitism { best, offered: Vec::new(), calls: 0, verdict: kani::any(), phantom: PhantomData }, phase: RosomaxaPhases::Exploitation { selection_size: 2 } };
        let x = sol(0);
        let verdict = r.elite.verdict;
        let improved = r.add(x);
        let comparable = match best { Some(b) => x.fit <= b.fit, None => true };
        assert!(improved == verdict && r.elite.calls == 1, "post_add_returns_the_elite_verdict");
        assert!(r.elite.offered.len() == if comparable { 1 } else { 0 }, "post_add_offers_a_comparable_individual");
        kani::cover!(comparable); kani::cover!(!comparable);
    }
}
