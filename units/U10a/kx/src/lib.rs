// U10a – shared time-window rule of the pragmatic validator: check_time_windows + TimeWindow::intersects (verbatim)
#![allow(dead_code, unused_variables, unused_imports)]
pub type Timestamp = f64;

//@extract vrp-core/src/models/common/domain.rs :: struct TimeWindow
//@end
impl TimeWindow {
//@extract vrp-core/src/models/common/domain.rs :: impl TimeWindow/fn intersects
//@end
}
//@extract vrp-pragmatic/src/validation/common.rs :: fn check_time_windows
//@end

#[cfg(kani)]
mod h {
    use super::*;
    /// a parsed window (None = the RFC3339 strings did not parse); times are integer-valued seconds 0..65535
    fn tw() -> Option<TimeWindow> {
        let some: bool = kani::any();
        let (s, e): (u16, u16) = (kani::any(), kani::any());
        if some { Some(TimeWindow { start: s as f64, end: e as f64 }) } else { None }
    }
    /// documented rule E1103 (docs/src/concepts/pragmatic/errors/index.md): every window is a well-formed pair,
    /// start not after end, and multiple windows do not intersect (unless the caller skips that clause);
    /// an empty list of windows is rejected
    fn rule(tws: &[Option<TimeWindow>], skip: bool) -> bool {
        if tws.is_empty() { return false; }
        let mut i = 0;
        while i < tws.len() {
            match &tws[i] {
                None => return false,
                Some(a) => {
                    if !(a.start <= a.end) { return false; }
                    let mut j = i + 1;
                    while j < tws.len() {
                        if let Some(b) = &tws[j] { if !skip && a.start <= b.end && b.start <= a.end { return false; } }
                        j += 1;
                    }
                }
            }
            i += 1;
        }
        true
    }
    fn check<const N: usize>() {
        let v: [Option<TimeWindow>; N] = core::array::from_fn(|_| tw());
        let skip: bool = kani::any();
        let expected = rule(&v, skip);
        assert!(check_time_windows(&v, skip) == expected, "post_check_time_windows_matches_documented_rule");
        kani::cover!(expected);
        kani::cover!(!expected);
    }
    #[kani::proof] #[kani::unwind(6)] fn check_time_windows_matches_rule_len1() { check::<1>(); }
    #[kani::proof] #[kani::unwind(6)] fn check_time_windows_matches_rule_len2() { check::<2>(); }
    #[kani::proof] #[kani::unwind(6)] fn check_time_windows_matches_rule_len3() { check::<3>(); }
    #[kani::proof] #[kani::unwind(7)] fn check_time_windows_matches_rule_len4() { check::<4>(); }
    #[kani::proof]
    fn intersects_is_inclusive_overlap() {
        let (a, b) = (tw(), tw());
        if let (Some(a), Some(b)) = (a, b) {
            kani::assume(a.start <= a.end && b.start <= b.end);
            // two non-inverted windows intersect iff some instant lies in both
            let common_lo = if a.start >= b.start { a.start } else { b.start };
            let common_hi = if a.end <= b.end { a.end } else { b.end };
            assert!(a.intersects(&b) == (common_lo <= common_hi), "post_intersects_iff_common_instant");
            assert!(a.intersects(&b) == b.intersects(&a), "post_intersects_symmetric");
        }
    }
}
