// L01 – meaning of the capacity gate's conditions (U01b): inside one reload interval with load profile load[0..n]
// (load after each activity), max_past[p] = max load up to p, max_future[p] = max load from p on, current[p] = load[p];
// if the gate's fit conditions hold at pivot p, then after inserting the new stop behind p NO point of the interval
// exceeds the capacity - for static delivery, static pickup and a dynamic change, any interval length.
// Single dimension, mathematical integers (the multi-dimensional gate applies the same per dimension: can_fit is
// element-wise, U01b).
use vstd::prelude::*;
verus! {

pub open spec fn max(a: int, b: int) -> int { if a >= b { a } else { b } }
pub open spec fn max_past(load: Seq<int>, p: int) -> int decreases p { if p <= 0 { load[0] } else { max(max_past(load, p - 1), load[p]) } }
pub open spec fn max_future(load: Seq<int>, p: int) -> int decreases load.len() - p { if p >= load.len() - 1 { load[p] } else { max(load[p], max_future(load, p + 1)) } }

pub proof fn lemma_max_past_bounds(load: Seq<int>, p: int, k: int)
    requires 0 <= k <= p < load.len()
    ensures load[k] <= max_past(load, p)
    decreases p
{ if k < p { lemma_max_past_bounds(load, p - 1, k); } }

pub proof fn lemma_max_future_bounds(load: Seq<int>, p: int, k: int)
    requires 0 <= p <= k < load.len()
    ensures load[k] <= max_future(load, p)
    decreases load.len() - p
{ if p < k { lemma_max_future_bounds(load, p + 1, k); } }

/// static delivery d0 (on board from the interval start until the new stop behind p): every point up to p stays within capacity
pub proof fn lemma_static_delivery(load: Seq<int>, p: int, d0: int, cap: int, k: int)
    requires 0 <= k <= p < load.len(), max_past(load, p) + d0 <= cap
    ensures load[k] + d0 <= cap
{ lemma_max_past_bounds(load, p, k); }

/// static pickup p0 (on board from the new stop to the interval end): the new stop and every later point stay within capacity
pub proof fn lemma_static_pickup(load: Seq<int>, p: int, p0: int, cap: int, k: int)
    requires 0 <= p <= k < load.len(), max_future(load, p) + p0 <= cap
    ensures load[k] + p0 <= cap, load[p] + p0 <= cap   // load at the new stop = load[p] + p0
{ lemma_max_future_bounds(load, p, k); lemma_max_future_bounds(load, p, p); }

/// dynamic change c (pickup-and-delivery part) applied from the new stop on
pub proof fn lemma_dynamic_change(load: Seq<int>, p: int, c: int, cap: int, k: int)
    requires 0 <= p <= k < load.len(), max_future(load, p) + c <= cap, load[p] + c <= cap
    ensures load[k] + c <= cap
{ lemma_max_future_bounds(load, p, k); }

// vacuity guard: must be REJECTED
pub proof fn vacuity_max_future_not_constant(load: Seq<int>) requires load.len() == 2 { assert(max_future(load, 0) == load[0]); }

} // verus!
fn main() {}
