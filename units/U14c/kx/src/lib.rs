// U14c – vehicle registry (models/solution/registry.rs, verbatim): offers a vehicle exactly when it is not in use,
// never hands one out twice; deep copies are independent
#![allow(dead_code, unused_variables, unused_imports)]
#[path = "@VERIF_ENV@/collections_fixed.rs"]
mod verif_env;
use verif_env::{HashMap, HashSet};
#[path = "@VERIF_ENV@/eager.rs"]
mod verif_eager;
use verif_eager::FlatMapEager;

// ------------------------------------------------------------------ environment (assumed)
/// std Arc replaced by a leaked shared reference without reference counting (memory reclamation is not what the property is
/// about): with std Arc the counts become symbolic as soon as a clone happens under a symbolic condition, every drop is then a
/// possible deallocation, and CBMC does not get through
pub struct Arc<T: 'static>(&'static T);
impl<T> Arc<T> { pub fn new(x: T) -> Self { Arc(Box::leak(Box::new(x))) } }
impl<T> Clone for Arc<T> { fn clone(&self) -> Self { Arc(self.0) } }
impl<T> std::ops::Deref for Arc<T> { type Target = T; fn deref(&self) -> &T { self.0 } }
impl<T> AsRef<T> for Arc<T> { fn as_ref(&self) -> &T { self.0 } }
impl<T> std::borrow::Borrow<T> for Arc<T> { fn borrow(&self) -> &T { self.0 } }
impl<T: PartialEq> PartialEq for Arc<T> { fn eq(&self, o: &Self) -> bool { *self.0 == *o.0 } }
impl<T: Eq> Eq for Arc<T> {}
/// real: Actor compared and hashed by address; here by a unique id
#[derive(PartialEq, Eq, Hash, Debug)] pub struct Actor { pub id: u8 }
pub struct Fleet { pub groups: HashMap<usize, HashSet<Arc<Actor>>>, pub actors: Vec<Arc<Actor>> }
pub trait Random { fn uniform_int(&self, min: i32, max: i32) -> i32; }

// ------------------------------------------------------------------ code under contract (verbatim from /repo)
//@extract vrp-core/src/models/solution/registry.rs :: struct Registry
//@subst "Arc<dyn Random>" => "std::sync::Arc<dyn Random>" count=1
//@end
//@extract vrp-core/src/models/solution/registry.rs :: impl Registry
//@subst ".flat_map(" => ".flat_map_eager(" count=3
//@subst "Arc<dyn Random>" => "std::sync::Arc<dyn Random>" count=1
//@end

#[cfg(kani)]
mod h {
    use super::*;
    struct Rnd;
    impl Random for Rnd { fn uniform_int(&self, min: i32, max: i32) -> i32 { let v: i32 = kani::any(); kani::assume(v >= min && v <= max); v } }
    const N: usize = 3;
    fn group(i: usize) -> usize { if i < 2 { 0 } else { 1 } }
    /// ANY registry state over three vehicles in two type groups {a0, a1} and {a2}: each vehicle free or in use
    /// (built directly; Registry::new's flat_map/collect chain is checked on its own below)
    fn state(free: &[bool; N]) -> (Registry, [Arc<Actor>; N]) {
        let a: [Arc<Actor>; N] = [Arc::new(Actor { id: 0 }), Arc::new(Actor { id: 1 }), Arc::new(Actor { id: 2 })];
        // every vehicle is entered and the ones in use are taken out again: a vehicle's slot does not depend on the others' state
        let mut g0 = HashSet::default(); g0.insert(a[0].clone()); g0.insert(a[1].clone());
        let mut g1 = HashSet::default(); g1.insert(a[2].clone());
        if !free[0] { g0.remove(&a[0]); } if !free[1] { g0.remove(&a[1]); } if !free[2] { g1.remove(&a[2]); }
        let mut available = HashMap::default(); available.insert(0usize, g0); available.insert(1usize, g1);
        let mut index = HashMap::default(); index.insert(a[0].clone(), 0usize); index.insert(a[1].clone(), 0usize); index.insert(a[2].clone(), 1usize);
        (Registry { available, index, all: a.to_vec(), random: std::sync::Arc::new(Rnd) }, a)
    }
    fn is_free(r: &Registry, a: &[Arc<Actor>; N], i: usize) -> bool { match r.available.get(&group(i)) { Some(set) => set.contains(&a[i]), None => false } }

    /// inductive step: from ANY state one acquire or release of ANY vehicle behaves like the reference model: use_actor succeeds
    /// exactly when the vehicle was free (never hands one out twice), free_actor exactly when it was in use; nothing else changes
    #[kani::proof] #[kani::unwind(6)]
    fn registry_step() {
        let mut free: [bool; N] = kani::any();
        let (mut r, a) = state(&free);
        let i: usize = kani::any(); kani::assume(i < N);
        if kani::any() {
            let got = r.use_actor(&a[i]);
            assert!(got == free[i], "post_use_succeeds_iff_vehicle_was_free");
            free[i] = false;
        } else {
            let was_used = r.free_actor(&a[i]);
            assert!(was_used == !free[i], "post_free_succeeds_iff_vehicle_was_in_use");
            free[i] = true;
        }
        let mut k = 0;
        while k < N { assert!(is_free(&r, &a, k) == free[k], "post_available_set_is_exactly_the_free_vehicles"); k += 1; }
        assert!(r.all.len() == N && r.index.len() == N, "post_fleet_membership_unchanged");
    }
    /// views: available() yields exactly the free vehicles, each once; all() everything
    #[kani::proof] #[kani::unwind(6)]
    fn registry_available_lists_exactly_the_free_vehicles() {
        let free: [bool; N] = kani::any();
        let (r, a) = state(&free);
        let mut seen = [0u8; N];
        for x in r.available() { seen[x.id as usize] += 1; }
        let mut i = 0;
        while i < N { assert!(seen[i] == free[i] as u8, "post_offered_exactly_when_not_in_use"); i += 1; }
        let mut cnt = 0;
        for x in r.all() { cnt += 1; }
        assert!(cnt == N, "post_all_lists_every_vehicle");
    }
    /// next() yields one free vehicle per type group that has one, whatever the random draw
    #[kani::proof] #[kani::unwind(6)]
    fn registry_next_offers_one_free_vehicle_per_group() {
        let free: [bool; N] = kani::any();
        let (r, a) = state(&free);
        let mut per_group = [0u8; 2];
        for x in r.next() { assert!(free[x.id as usize], "post_next_offers_only_free_vehicles"); per_group[group(x.id as usize)] += 1; }
        assert!(per_group[0] == (free[0] || free[1]) as u8 && per_group[1] == free[2] as u8, "post_next_offers_one_per_group_with_free_vehicles");
    }
    /// a deep copy is independent of its original
    #[kani::proof] #[kani::unwind(6)]
    fn registry_deep_copy_is_independent() {
        let free: [bool; N] = kani::any();
        let (r, a) = state(&free);
        let mut c = r.deep_copy();
        let mut free_c = free;
        let j: usize = kani::any(); kani::assume(j < N);
        if kani::any() { c.use_actor(&a[j]); free_c[j] = false; } else { c.free_actor(&a[j]); free_c[j] = true; }
        let mut k = 0;
        while k < N {
            assert!(is_free(&r, &a, k) == free[k], "post_original_unchanged_by_operations_on_the_copy");
            assert!(is_free(&c, &a, k) == free_c[k], "post_copy_mutated_alone");
            k += 1;
        }
    }
    /// a slice knows exactly the kept vehicles: it lists them, offers the free ones among them, and a vehicle that is not part of
    /// the slice can neither be taken from it nor released into it
    #[kani::proof] #[kani::unwind(6)]
    fn registry_deep_slice_knows_only_kept_vehicles() {
        let free: [bool; N] = kani::any();
        let keep: [bool; N] = kani::any();
        let (r, a) = state(&free);
        let mut s = r.deep_slice(|actor| keep[actor.id as usize]);
        let mut k = 0;
        while k < N {
            assert!(is_free(&s, &a, k) == (free[k] && keep[k]), "post_slice_offers_exactly_the_free_kept_vehicles");
            assert!(s.index.contains_key(&a[k]) == keep[k], "post_slice_knows_exactly_the_kept_vehicles");
            assert!(is_free(&r, &a, k) == free[k], "post_original_unchanged_by_slicing");
            k += 1;
        }
        let mut cnt = 0;
        for x in s.all() { assert!(keep[x.id as usize], "post_slice_lists_only_kept_vehicles"); cnt += 1; }
        assert!(cnt == keep[0] as usize + keep[1] as usize + keep[2] as usize, "post_slice_lists_every_kept_vehicle_once");
        let j: usize = kani::any(); kani::assume(j < N && !keep[j]);
        let released = s.free_actor(&a[j]);
        assert!(!released && !is_free(&s, &a, j), "post_vehicle_outside_the_slice_cannot_be_released_into_it");
        assert!(!s.use_actor(&a[j]), "post_vehicle_outside_the_slice_cannot_be_taken_from_it");
    }
    /// Registry::new: everything free, every vehicle known with its own group
    #[kani::proof] #[kani::unwind(6)]
    fn registry_new_all_free() {
        let (r0, a) = state(&[true, true, true]);
        let f = Fleet { groups: r0.available.clone(), actors: a.to_vec() };
        let r = Registry::new(&f, std::sync::Arc::new(Rnd));
        let mut k = 0;
        while k < N { assert!(is_free(&r, &a, k), "post_new_registry_offers_every_vehicle"); assert!(r.index.get(&a[k]) == Some(&group(k)), "post_new_registry_indexes_every_vehicle_by_group"); k += 1; }
        assert!(r.all.len() == N, "post_new_registry_lists_every_vehicle");
    }
}
