// U20d – total value of served jobs (total_value.rs, verbatim incl. the feature constructor that builds the estimate closure):
// the quote for putting a job on a tour equals the change of the objective once it is there
#![allow(dead_code, unused_variables, unused_imports)]
use std::sync::Arc;

// ------------------------------------------------------------------ environment (assumed)
pub type Float = f64;
pub type Cost = f64;
pub type GenericError = &'static str;
#[derive(Clone, Copy, Debug, PartialEq, Eq)] pub struct ViolationCode(pub i32);
#[derive(Clone, Debug, PartialEq, Eq)] pub struct ConstraintViolation { pub code: ViolationCode, pub stopped: bool }
/// a job carries the value the user's value function reads from it
#[derive(Clone, Copy, PartialEq, Debug)] pub struct Job { pub id: u8, pub value: Float }
pub struct Actor { pub factor: Float }
pub struct Tour { pub jobs: Vec<Job> }
impl Tour { pub fn jobs(&self) -> impl Iterator<Item = &Job> + '_ { self.jobs.iter() } }
pub struct Route { pub actor: Arc<Actor>, pub tour: Tour }
pub struct RouteContext { pub route: Route }
impl RouteContext { pub fn route(&self) -> &Route { &self.route } }
pub struct SolutionContext { pub routes: Vec<RouteContext> }
pub struct InsertionContext { pub solution: SolutionContext }
pub struct ActivityContext;
pub enum MoveContext<'a> {
    Route { solution_ctx: &'a SolutionContext, route_ctx: &'a RouteContext, job: &'a Job },
    Activity { solution_ctx: &'a SolutionContext, route_ctx: &'a RouteContext, activity_ctx: &'a ActivityContext },
}
pub trait FeatureConstraint { fn evaluate(&self, move_ctx: &MoveContext<'_>) -> Option<ConstraintViolation>; fn merge(&self, source: Job, candidate: Job) -> Result<Job, ViolationCode>; }
pub trait FeatureObjective { fn fitness(&self, solution: &InsertionContext) -> Cost; fn estimate(&self, move_ctx: &MoveContext<'_>) -> Cost; }
/// records what the constructor registers
pub struct Feature { pub objective: Option<Arc<dyn FeatureObjective>>, pub constraint: Option<Arc<dyn FeatureConstraint>> }
#[derive(Default)] pub struct FeatureBuilder { objective: Option<Arc<dyn FeatureObjective>>, constraint: Option<Arc<dyn FeatureConstraint>> }
impl FeatureBuilder {
    pub fn with_name(self, _: &str) -> Self { self }
    pub fn with_objective<T: FeatureObjective + 'static>(mut self, o: T) -> Self { self.objective = Some(Arc::new(o)); self }
    pub fn with_constraint<T: FeatureConstraint + 'static>(mut self, c: T) -> Self { self.constraint = Some(Arc::new(c)); self }
    pub fn build(self) -> Result<Feature, GenericError> { Ok(Feature { objective: self.objective, constraint: self.constraint }) }
}

// ------------------------------------------------------------------ code under contract (verbatim from /repo)
//@extract vrp-core/src/utils/types.rs :: enum Either
//@end
//@extract vrp-core/src/utils/types.rs :: impl<L, R> Clone for Either<L, R>
//@end
//@extract vrp-core/src/construction/features/total_value.rs :: *
//@end

#[cfg(kani)]
mod h {
    use super::*;
    fn v() -> Float { let x: u8 = kani::any(); kani::assume(x < 16); x as Float }
    fn feature(actor_aware: bool) -> Feature {
        let read: JobReadValueFn = if actor_aware { Either::Right(Arc::new(|a: &Actor, j: &Job| a.factor * j.value)) } else { Either::Left(Arc::new(|j: &Job| j.value)) };
        create_maximize_total_job_value_feature("value", read, Arc::new(|j: Job, value: Float| Job { value, ..j }), ViolationCode(1)).unwrap()
    }
    /// C20 (total value of served jobs): quote at route level + quotes at activity level (zero) == objective after - objective before,
    /// for a job put on either of two tours (integer-valued values: exact)
    fn quote_equals_change(actor_aware: bool) {
        let f = feature(actor_aware);
        let o = f.objective.as_ref().unwrap();
        let (j0, j1, j2, new) = (Job { id: 0, value: v() }, Job { id: 1, value: v() }, Job { id: 2, value: v() }, Job { id: 9, value: v() });
        let (f0, f1) = (if actor_aware { v() } else { 1. }, if actor_aware { v() } else { 1. });
        let target: usize = kani::any(); kani::assume(target < 2);
        let mk = |with_new: bool| InsertionContext { solution: SolutionContext { routes: vec![
            RouteContext { route: Route { actor: Arc::new(Actor { factor: f0 }), tour: Tour { jobs: if with_new && target == 0 { vec![j0, j1, new] } else { vec![j0, j1] } } } },
            RouteContext { route: Route { actor: Arc::new(Actor { factor: f1 }), tour: Tour { jobs: if with_new && target == 1 { vec![j2, new] } else { vec![j2] } } } }] } };
        let (before, after) = (mk(false), mk(true));
        let quote = o.estimate(&MoveContext::Route { solution_ctx: &before.solution, route_ctx: &before.solution.routes[target], job: &new })
                  + o.estimate(&MoveContext::Activity { solution_ctx: &before.solution, route_ctx: &before.solution.routes[target], activity_ctx: &ActivityContext });
        assert!(quote == o.fitness(&after) - o.fitness(&before), "post_quoted_value_equals_change_of_total_value");
        // maximisation is expressed as minimisation of the negated total
        let total = (j0.value + j1.value) * f0 + j2.value * f1;
        assert!(o.fitness(&before) == -total, "post_fitness_is_minus_the_total_value_of_served_jobs");
    }
    #[kani::proof] #[kani::unwind(5)] fn total_value_quote_equals_change_simple() { quote_equals_change(false) }
    #[kani::proof] #[kani::unwind(5)] fn total_value_quote_equals_change_actor_aware() { quote_equals_change(true) }
}
