// U10g – id rules E1100 (duplicate job ids), E1104 (reserved job ids), E1300 (duplicate vehicle type ids), E1301 (duplicate
// vehicle ids across all types) (validation/jobs.rs, validation/vehicles.rs, verbatim) with get_duplicates (common.rs, verbatim)
// and is_reserved_job_id (mod.rs, verbatim) against the documented rules
#![allow(dead_code, unused_macros, unused_variables, unused_imports)]
macro_rules! format { ($($t:tt)*) => { () } } // message text dropped (the error CODE is what the property speaks about)
const VERIF_MAP_CAP: usize = 4;
#[path = "@VERIF_ENV@/collections_fixed_n.rs"]
mod verif_env;
use verif_env::HashSet;
#[path = "@VERIF_ENV@/strings.rs"]
mod verif_strings;
use verif_strings::String;
const VERIF_VEC_CAP: usize = 4;
#[path = "@VERIF_ENV@/vec_fixed.rs"]
mod verif_vec;
use verif_vec::Vec;
#[path = "@VERIF_ENV@/eager.rs"]
mod verif_eager;
use verif_eager::FlatMapEager;

// ------------------------------------------------------------------ environment (assumed)
#[derive(Clone, Copy, Default)] pub struct Job { pub id: String }
#[derive(Clone, Copy, Default)] pub struct VehicleType { pub type_id: String, pub vehicle_ids: Vec<String> }
pub struct Plan { pub jobs: Vec<Job> }
pub struct Fleet { pub vehicles: Vec<VehicleType> }
pub struct Problem { pub plan: Plan, pub fleet: Fleet }
pub struct ValidationContext<'a> { pub problem: &'a Problem }
pub struct FormatError { pub code: [u8; 5] }
impl FormatError { pub fn new<A, B>(code: std::string::String, _cause: A, _action: B) -> Self { let b = code.as_bytes(); Self { code: [b[0], b[1], b[2], b[3], b[4]] } } }

// ------------------------------------------------------------------ code under contract (verbatim from /repo)
impl<'a> ValidationContext<'a> {
//@extract vrp-pragmatic/src/validation/mod.rs :: impl<'a> ValidationContext<'a>/fn jobs
//@end
//@extract vrp-pragmatic/src/validation/mod.rs :: impl<'a> ValidationContext<'a>/fn vehicles
//@end
}
//@extract vrp-pragmatic/src/validation/mod.rs :: fn is_reserved_job_id
//@end
//@extract vrp-pragmatic/src/validation/common.rs :: fn get_duplicates
//@end
//@extract vrp-pragmatic/src/validation/jobs.rs :: fn check_e1100_no_jobs_with_duplicate_ids
//@end
//@extract vrp-pragmatic/src/validation/jobs.rs :: fn check_e1104_no_reserved_ids
//@end
//@extract vrp-pragmatic/src/validation/vehicles.rs :: fn check_e1300_no_vehicle_types_with_duplicate_type_ids
//@end
//@extract vrp-pragmatic/src/validation/vehicles.rs :: fn check_e1301_no_vehicle_types_with_duplicate_ids
//@subst ".flat_map(" => ".flat_map_eager(" count=1
//@end

#[cfg(kani)]
mod h {
    use super::*;
    fn id(lo: u8, hi: u8) -> String { let i: u8 = kani::any(); kani::assume(i >= lo && i <= hi); String(i) }
    fn list<T, const N: usize>(xs: [T; N]) -> Vec<T> { xs.into_iter().collect() }
    fn expect(r: Result<(), FormatError>, broken: bool, c: &[u8; 5]) {
        assert!(r.is_err() == broken, "post_rule_rejects_exactly_when_the_documented_rule_is_broken");
        if let Err(e) = &r { assert!(e.code == *c, "post_reported_code_names_the_rule"); }
        kani::cover!(broken); kani::cover!(!broken);
    }
    fn problem(jobs: Vec<Job>, vehicles: Vec<VehicleType>) -> Problem { Problem { plan: Plan { jobs }, fleet: Fleet { vehicles } } }

    /// E1100: two jobs with the same id
    #[kani::proof] #[kani::unwind(12)]
    fn e1100_job_ids_are_unique() {
        // (two jobs: the three-id case of the shared helper get_duplicates is unit U10e's)
        let ids = [id(4, 5), id(4, 5)];
        let p = problem(list([Job { id: ids[0] }, Job { id: ids[1] }]), Vec::new());
        expect(check_e1100_no_jobs_with_duplicate_ids(&ValidationContext { problem: &p }), ids[0] == ids[1], b"E1100");
    }
    /// E1104: a job named departure / arrival / break / reload
    #[kani::proof] #[kani::unwind(12)]
    fn e1104_job_ids_are_not_reserved() {
        let ids = [id(0, 7), id(0, 7)];
        let p = problem(list([Job { id: ids[0] }, Job { id: ids[1] }]), Vec::new());
        expect(check_e1104_no_reserved_ids(&ValidationContext { problem: &p }), ids[0].0 <= 3 || ids[1].0 <= 3, b"E1104");
    }
    /// E1300: two vehicle types with the same type id
    #[kani::proof] #[kani::unwind(12)]
    fn e1300_vehicle_type_ids_are_unique() {
        let ids = [id(4, 5), id(4, 5)];
        let vt = |t: String| VehicleType { type_id: t, vehicle_ids: Vec::new() };
        let p = problem(Vec::new(), list([vt(ids[0]), vt(ids[1])]));
        expect(check_e1300_no_vehicle_types_with_duplicate_type_ids(&ValidationContext { problem: &p }), ids[0] == ids[1], b"E1300");
    }
    /// E1301: a vehicle id occurs twice, inside one type or across types
    #[kani::proof] #[kani::unwind(12)]
    fn e1301_vehicle_ids_are_unique_across_types() {
        let ids = [id(4, 7), id(4, 7), id(4, 7)];
        let p = problem(Vec::new(), list([VehicleType { type_id: String(4), vehicle_ids: list([ids[0], ids[1]]) }, VehicleType { type_id: String(5), vehicle_ids: list([ids[2]]) }]));
        expect(check_e1301_no_vehicle_types_with_duplicate_ids(&ValidationContext { problem: &p }), ids[0] == ids[1] || ids[0] == ids[2] || ids[1] == ids[2], b"E1301");
    }
}
