// U01j – route-level time pre-check: TransportConstraint::evaluate_job (features/transport.rs, verbatim) with
// TimeSpan::intersects / to_time_window and TimeWindow::intersects (models/common/domain.rs, verbatim).
// C06 (exhaustive mode reports failure only when no feasible position exists): the pre-check refuses a job for a tour only
// when some task of the job has NO time span that overlaps the vehicle's shift (such a task cannot be served by that tour at all).
#![allow(dead_code, unused_variables, unused_imports)]
use std::sync::Arc;
#[path = "@VERIF_ENV@/eager.rs"]
mod verif_eager;
use verif_eager::FlatMapEager;

// ------------------------------------------------------------------ environment (assumed)
pub type Float = f64;
pub type Timestamp = f64;
#[derive(Clone, Copy, Debug, PartialEq, Eq)] pub struct ViolationCode(pub i32);
#[derive(Clone, Debug, PartialEq, Eq)] pub struct ConstraintViolation { pub code: ViolationCode, pub stopped: bool }
impl ConstraintViolation { pub fn fail(code: ViolationCode) -> Option<Self> { Some(Self { code, stopped: true }) } }
#[derive(Clone, Debug)] pub struct TimeWindow { pub start: Timestamp, pub end: Timestamp }
#[derive(Clone, Debug)] pub struct TimeOffset { pub start: Timestamp, pub end: Timestamp }
#[derive(Clone, Debug)] pub enum TimeSpan { Window(TimeWindow), Offset(TimeOffset) }
impl TimeWindow {
    pub fn new(start: Timestamp, end: Timestamp) -> Self { Self { start, end } }
//@extract vrp-core/src/models/common/domain.rs :: impl TimeWindow/fn intersects
//@end
}
impl TimeSpan {
//@extract vrp-core/src/models/common/domain.rs :: impl TimeSpan/fn to_time_window
//@end
//@extract vrp-core/src/models/common/domain.rs :: impl TimeSpan/fn intersects
//@end
}
/// places and their time spans as inline arrays (the code only iterates them): 2 places x 2 spans
pub struct Place { pub times: [TimeSpan; 2] }
pub struct Single { pub places: [Place; 2] }
pub struct Multi { pub jobs: [Arc<Single>; 2] }
pub enum Job { Single(Arc<Single>), Multi(Arc<Multi>) }
pub struct Schedule { pub departure: Timestamp }
pub struct Activity { pub schedule: Schedule }
pub struct Tour { pub first: Activity }
impl Tour { pub fn start(&self) -> Option<&Activity> { Some(&self.first) } }
pub struct ActorDetail { pub time: TimeWindow }
pub struct Actor { pub detail: ActorDetail }
pub struct Route { pub actor: Arc<Actor>, pub tour: Tour }
pub struct RouteContext { pub route: Route }
impl RouteContext { pub fn route(&self) -> &Route { &self.route } }
pub struct TransportConstraint { pub time_window_code: ViolationCode }

// ------------------------------------------------------------------ code under contract (verbatim from /repo)
impl TransportConstraint {
//@extract vrp-core/src/construction/features/transport.rs :: impl TransportConstraint/fn evaluate_job
//@subst ".flat_map(" => ".flat_map_eager(" count=1
//@end
}

#[cfg(kani)]
mod h {
    use super::*;
    fn t() -> Float { let v: u8 = kani::any(); kani::assume(v < 16); v as Float }
    fn span() -> TimeSpan { let (a, b) = (t(), t()); if kani::any() { TimeSpan::Window(TimeWindow { start: a, end: b }) } else { TimeSpan::Offset(TimeOffset { start: a, end: b }) } }
    fn single() -> Arc<Single> { Arc::new(Single { places: [Place { times: [span(), span()] }, Place { times: [span(), span()] }] }) }
    /// independent statement: the span, anchored at the tour's departure when it is an offset, overlaps the shift
    fn overlaps(s: &TimeSpan, date: Float, shift: &TimeWindow) -> bool {
        let (a, b) = match s { TimeSpan::Window(w) => (w.start, w.end), TimeSpan::Offset(o) => (date + o.start, date + o.end) };
        a <= shift.end && shift.start <= b
    }
    fn servable(s: &Single, date: Float, shift: &TimeWindow) -> bool { s.places.iter().any(|p| p.times.iter().any(|x| overlaps(x, date, shift))) }
    fn ctx(date: Float, shift: &TimeWindow) -> RouteContext { RouteContext { route: Route { actor: Arc::new(Actor { detail: ActorDetail { time: shift.clone() } }), tour: Tour { first: Activity { schedule: Schedule { departure: date } } } } } }

    #[kani::proof] #[kani::unwind(10)]
    fn pre_check_refuses_a_single_job_only_if_no_span_overlaps_the_shift() {
        let shift = TimeWindow { start: t(), end: t() };
        let date = t();
        let s = single();
        let r = TransportConstraint { time_window_code: ViolationCode(1) }.evaluate_job(&ctx(date, &shift), &Job::Single(s.clone()));
        if r.is_some() { assert!(!servable(&s, date, &shift), "post_pre_check_refuses_only_jobs_no_span_of_which_overlaps_the_shift"); }
        if let Some(v) = &r { assert!(v.code == ViolationCode(1), "post_violation_carries_the_time_window_code"); }
        kani::cover!(r.is_some()); kani::cover!(r.is_none() && !overlaps(&s.places[0].times[0], date, &shift));
    }
    #[kani::proof] #[kani::unwind(10)]
    fn pre_check_refuses_a_multi_job_only_if_some_task_cannot_be_served() {
        let shift = TimeWindow { start: t(), end: t() };
        let date = t();
        let (a, b) = (single(), single());
        let r = TransportConstraint { time_window_code: ViolationCode(1) }.evaluate_job(&ctx(date, &shift), &Job::Multi(Arc::new(Multi { jobs: [a.clone(), b.clone()] })));
        if r.is_some() { assert!(!servable(&a, date, &shift) || !servable(&b, date, &shift), "post_pre_check_refuses_only_jobs_with_a_task_no_span_of_which_overlaps_the_shift"); }
        kani::cover!(r.is_some()); kani::cover!(r.is_none());
    }
}
