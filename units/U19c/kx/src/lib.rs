// U19c – Rosomaxa phases: update_phase / selection_phase / optimize_network (rosomaxa.rs, verbatim) against stand-ins of the
// network and of network creation. C19: the population moves through its phases only forward (Initial -> Exploration ->
// Exploitation, never back); the map is never created from an empty set (precondition of Network::new); the preconditions of
// the schedule formulas hold. C08: the selection size stays positive in every phase (selection returns something).
// Deliberately NOT demanded (the properties do not): the exact transition thresholds, the [2, 4] clamp, when the map is compacted.
#![allow(dead_code, unused_variables, unused_imports)]
use std::cmp::Ordering;
use std::marker::PhantomData;
use std::sync::Arc;

// ------------------------------------------------------------------ environment (assumed)
pub type Float = f64;
pub type GenericError = &'static str;
pub type GenericResult<T> = Result<T, GenericError>;
pub trait HeuristicSolution: Send + Sync {}
pub trait HeuristicObjective: Send + Sync { type Solution; }
pub trait Alternative {}
pub trait Input {}
pub trait Random {}
pub trait RosomaxaSolution: HeuristicSolution + Input { type Context: RosomaxaContext; fn on_update(&mut self, context: &Self::Context); }
pub trait RosomaxaContext: Send + Sync { type Solution: HeuristicSolution; }
pub struct Rnd; impl Random for Rnd {}
pub struct Environment { pub random: Arc<dyn Random>, pub logger: Arc<dyn Fn(&str)> }
//@extract rosomaxa/src/population/rosomaxa.rs :: struct RosomaxaConfig
//@end
//@extract rosomaxa/src/lib.rs :: enum HeuristicSpeed
//@end
/// real HeuristicStatistics also carries a timer and the all-time improvement ratio (not read here)
#[derive(Clone)]
pub struct HeuristicStatistics { pub generation: usize, pub speed: HeuristicSpeed, pub improvement_1000_ratio: Float, pub termination_estimate: Float }
#[derive(Clone, Copy, PartialEq, Debug)]
pub struct Coordinate(pub i32, pub i32);
pub enum SelectionPhase { Initial, Exploration, Exploitation }
pub struct Elitism<O, S> { pub phantom: PhantomData<(O, S)> }
/// ghost stand-in for the GSOM network: a node count and a log of what is done to it
pub struct IndividualNetwork<C, O, S> {
    pub created_from: usize, pub nodes: usize, pub learning_rate: Float, pub mse: Float, pub compacted: usize, pub smoothed: usize,
    pub log: [u8; 4], pub log_len: usize, pub phantom: PhantomData<(C, O, S)>,
}
impl<C, O, S> IndividualNetwork<C, O, S> {
    fn note(&mut self, what: u8) { if self.log_len < 4 { self.log[self.log_len] = what; } self.log_len += 1; }
    pub fn get_coordinates(&self) -> impl Iterator<Item = Coordinate> + '_ { (0..self.nodes as i32).map(|i| Coordinate(i, 0)) }
    pub fn set_learning_rate(&mut self, learning_rate: Float) { self.learning_rate = learning_rate; self.note(1); }
    pub fn mse(&self) -> Float { self.mse }
    pub fn dimension(&self) -> usize { 4 }
    pub fn size(&self) -> usize { self.nodes }
    pub fn smooth<FM: Fn(&mut S)>(&mut self, _: &C, rebalance_count: usize, _node_fn: FM) { self.smoothed += rebalance_count; self.note(2); }
    /// contract of Network::compact (unit U19b): never grows the map, never leaves fewer than four nodes
    pub fn compact(&mut self, _: &C) { self.compacted += 1; self.note(3); }
}
/// the two schedule formulas use exp / cos, which CBMC only approximates: replaced by their ranges
/// (get_keep_size in [rebalance_memory, 3 * rebalance_memory], get_learning_rate in [0.1, 1])
fn get_keep_size(rebalance_memory: usize, termination_estimate: Float) -> usize { let k: usize = kani_any_usize(); assume(k >= rebalance_memory && k <= 3 * rebalance_memory); k }
fn get_learning_rate(termination_estimate: Float) -> Float { assert!((0. ..=1.).contains(&termination_estimate), "termination estimate must be in [0, 1]"); 0.5 }
#[cfg(kani)] fn kani_any_usize() -> usize { kani::any() }
#[cfg(kani)] fn assume(c: bool) { kani::assume(c) }
#[cfg(not(kani))] fn kani_any_usize() -> usize { 0 }
#[cfg(not(kani))] fn assume(_: bool) {}

// ------------------------------------------------------------------ code under contract (verbatim from /repo)
//@extract rosomaxa/src/population/rosomaxa.rs :: struct Rosomaxa
//@end
//@extract rosomaxa/src/population/rosomaxa.rs :: enum RosomaxaPhases
//@end
impl<C, O, S> Rosomaxa<C, O, S>
where
    C: RosomaxaContext<Solution = S>,
    O: HeuristicObjective<Solution = S> + Alternative,
    S: RosomaxaSolution<Context = C>,
{
//@extract rosomaxa/src/population/rosomaxa.rs :: impl<C, O, S> Rosomaxa<C, O, S>/fn update_phase
//@end
//@extract rosomaxa/src/population/rosomaxa.rs :: impl<C, O, S> Rosomaxa<C, O, S>/fn optimize_network
//@end
//@extract rosomaxa/src/population/rosomaxa.rs :: impl<C, O, S> HeuristicPopulation for Rosomaxa<C, O, S>/fn selection_phase
//@end
    /// (environment) network creation: float training, outside both verifiers; records how many individuals it was given
    fn create_network(context: &C, objective: Arc<O>, environment: Arc<Environment>, config: &RosomaxaConfig, individuals: Vec<S>) -> GenericResult<IndividualNetwork<C, O, S>> {
        assert!(!individuals.is_empty(), "precondition of Network::new: initial data is not empty");
        Ok(IndividualNetwork { created_from: individuals.len(), nodes: 4, learning_rate: 0.3, mse: 0., compacted: 0, smoothed: 0, log: [0; 4], log_len: 0, phantom: PhantomData })
    }
    /// (environment) refills the list of non-empty nodes (shuffle): recorded as log entry 4
    fn fill_populations(network: &IndividualNetwork<C, O, S>, coordinates: &mut Vec<Coordinate>, random: &(dyn Random)) { coordinates.clear(); coordinates.push(Coordinate(-1, -1)); }
}

#[cfg(kani)]
mod h {
    use super::*;
    #[derive(Clone, Copy)] pub struct Sol { id: u8 }
    impl HeuristicSolution for Sol {}
    impl Input for Sol {}
    impl RosomaxaSolution for Sol { type Context = Ctx; fn on_update(&mut self, _: &Ctx) {} }
    pub struct Ctx; impl RosomaxaContext for Ctx { type Solution = Sol; }
    pub struct Obj; impl Alternative for Obj {} impl HeuristicObjective for Obj { type Solution = Sol; }
    type R = Rosomaxa<Ctx, Obj, Sol>;
    fn unit_float() -> Float { let v: u8 = kani::any(); kani::assume(v <= 8); v as Float / 8. }
    fn any_speed() -> HeuristicSpeed {
        let k: u8 = kani::any();
        match k { 0 => HeuristicSpeed::Unknown, 1 => HeuristicSpeed::Moderate { average: 1., median: None }, _ => HeuristicSpeed::Slow { ratio: unit_float(), average: 1., median: None } }
    }
    fn any_stats() -> HeuristicStatistics {
        let g: u8 = kani::any();
        HeuristicStatistics { generation: g as usize, speed: any_speed(), improvement_1000_ratio: unit_float(), termination_estimate: unit_float() }
    }
    fn any_config() -> RosomaxaConfig {
        let (sel, init, mem): (u8, u8, u8) = (kani::any(), kani::any(), kani::any());
        kani::assume(sel >= 2 && sel <= 16 && init >= 1 && init <= 3 && mem >= 1 && mem <= 8); // Rosomaxa::new rejects selection_size < 2
        RosomaxaConfig { initial_size: init as usize, selection_size: sel as usize, elite_size: 2, node_size: 2, spread_factor: 0.75, distribution_factor: 0.9, rebalance_memory: mem as usize, exploration_ratio: unit_float() }
    }
    fn net(nodes: usize, mse: Float) -> IndividualNetwork<Ctx, Obj, Sol> { IndividualNetwork { created_from: 0, nodes, learning_rate: 0.3, mse, compacted: 0, smoothed: 0, log: [0; 4], log_len: 0, phantom: PhantomData } }
    fn rosomaxa(phase: RosomaxaPhases<Ctx, Obj, Sol>) -> R {
        Rosomaxa { external_ctx: Ctx, objective: Arc::new(Obj), environment: Arc::new(Environment { random: Arc::new(Rnd), logger: Arc::new(|_| ()) }), config: any_config(), elite: Elitism { phantom: PhantomData }, phase }
    }
    fn rank(r: &R) -> u8 { match r.selection_phase() { SelectionPhase::Initial => 0, SelectionPhase::Exploration => 1, SelectionPhase::Exploitation => 2 } }

    /// a generation tick in the initial phase with K collected individuals
    fn tick_initial<const K: usize>() {
        let mut r = rosomaxa(RosomaxaPhases::Initial { solutions: (0..K).map(|i| Sol { id: i as u8 }).collect() });
        let stats = any_stats();
        let enough = K >= r.config.initial_size;
        r.update_phase(&stats);
        assert!(rank(&r) >= 0, "post_phase_moves_only_forward");
        match &r.phase {
            RosomaxaPhases::Initial { solutions } => {
                assert!(solutions.len() == K, "post_initial_phase_keeps_its_individuals");
            }
            RosomaxaPhases::Exploration { network, coordinates, statistics, selection_size } => {
                assert!(network.created_from >= 1, "post_network_is_built_from_at_least_one_individual");
                assert!(*selection_size >= 1, "post_selection_size_is_positive");
                assert!(statistics.generation == stats.generation, "post_exploration_remembers_the_statistics");
            }
            RosomaxaPhases::Exploitation { selection_size } => {
                assert!(*selection_size >= 1, "post_selection_size_is_positive");
            }
        }
        kani::cover!(K == 0 || matches!(r.phase, RosomaxaPhases::Exploration { .. }));
        kani::cover!(matches!(r.phase, RosomaxaPhases::Exploitation { .. }));
    }
    #[kani::proof] #[kani::unwind(6)] fn tick_in_initial_phase_with_0() { tick_initial::<0>() }
    #[kani::proof] #[kani::unwind(6)] fn tick_in_initial_phase_with_1() { tick_initial::<1>() }
    #[kani::proof] #[kani::unwind(6)] fn tick_in_initial_phase_with_3() { tick_initial::<3>() }

    /// a generation tick in the exploration phase: stays (and maintains the map) or moves on to exploitation, never back
    #[kani::proof] #[kani::unwind(6)]
    fn tick_in_exploration_phase() {
        let nodes: u8 = kani::any(); kani::assume(nodes >= 4 && nodes <= 30);
        let mut r = rosomaxa(RosomaxaPhases::Exploration { network: net(nodes as usize, unit_float()), coordinates: vec![Coordinate(0, 0)], statistics: any_stats(), selection_size: 2 });
        let stats = any_stats();
        r.update_phase(&stats);
        assert!(rank(&r) >= 1, "post_phase_moves_only_forward");
        match &r.phase {
            RosomaxaPhases::Initial { .. } => {}
            RosomaxaPhases::Exploration { network, coordinates, statistics, selection_size } => {
                assert!(statistics.generation == stats.generation, "post_exploration_remembers_the_statistics");
                assert!(*selection_size >= 1, "post_selection_size_is_positive");
                assert!(coordinates.len() == 1 && coordinates[0] == Coordinate(-1, -1), "post_selection_coordinates_are_refilled_after_map_maintenance");
            }
            RosomaxaPhases::Exploitation { selection_size } => {
                assert!(*selection_size >= 1, "post_selection_size_is_positive");
            }
        }
        kani::cover!(matches!(&r.phase, RosomaxaPhases::Exploration { network, .. } if network.compacted == 1));
        kani::cover!(matches!(&r.phase, RosomaxaPhases::Exploration { network, .. } if network.compacted == 0));
        kani::cover!(matches!(r.phase, RosomaxaPhases::Exploitation { .. }));
    }

    /// exploitation is final; its selection size is halved per tick but stays within [2, 4]
    #[kani::proof] #[kani::unwind(6)]
    fn tick_in_exploitation_phase() {
        let old: u16 = kani::any();
        let mut r = rosomaxa(RosomaxaPhases::Exploitation { selection_size: old as usize });
        r.update_phase(&any_stats());
        assert!(rank(&r) == 2, "post_phase_moves_only_forward");
        if let RosomaxaPhases::Exploitation { selection_size } = &r.phase {
            assert!(*selection_size >= 1, "post_selection_size_is_positive");
        }
        kani::cover!(old > 8);
        kani::cover!(old == 0);
    }
}
