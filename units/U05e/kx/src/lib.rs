// U05e – handover protocol of search operators over ghost state: what an operator returns carries per-solution aggregates that
// were computed (accept_solution_state) AFTER its last change to the set of tours and under the goal it is returned with.
// RedistributeSearch::search, RuinAndRecreate::search, InsertionContext::restore, finalize_insertion_ctx (all verbatim).
#![allow(dead_code, unused_variables, unused_imports)]
use std::ops::Range;
use std::sync::Arc;

// ------------------------------------------------------------------ environment: ghost state machine (assumed contracts of the callees)
/// ghost: `tours_version` changes whenever the set of tours (or their content) changes; `aggregates_for` records for which goal and
/// which version the per-solution aggregates were last computed
#[derive(Clone, Copy)] pub struct Pending { pub any: bool }
impl Pending { pub fn is_empty(&self) -> bool { !self.any } }
pub struct SolutionContext { pub tours_version: u8, pub may_have_empty_tours: bool, pub required: Pending, pub aggregates_for: Option<(u8, u8)> }
impl SolutionContext {
    /// assumed contract of remove_empty_routes: changes the set of tours iff there was an empty one
    pub(crate) fn remove_empty_routes(&mut self) { if self.may_have_empty_tours { self.tours_version = self.tours_version.wrapping_add(1); self.may_have_empty_tours = false; } }
}
pub struct GoalContext { pub id: u8 }
impl GoalContext {
    /// assumed contract of GoalContext::accept_solution_state (U05a: calls every feature state once, in order): aggregates now
    /// describe the current tours under this goal
    pub fn accept_solution_state(&self, s: &mut SolutionContext) { s.aggregates_for = Some((self.id, s.tours_version)); }
}
pub struct Problem { pub goal: Arc<GoalContext> }
pub trait Quota { fn is_reached(&self) -> bool; }
pub struct Environment { pub quota: Option<Arc<dyn Quota>> }
pub struct InsertionContext { pub problem: Arc<Problem>, pub solution: SolutionContext, pub environment: Arc<Environment> }
impl InsertionContext {
    pub fn deep_copy(&self) -> Self { InsertionContext { problem: self.problem.clone(), solution: SolutionContext { ..self.solution }, environment: self.environment.clone() } }
    pub fn fresh(&self) -> bool { self.solution.aggregates_for == Some((self.problem.goal.id, self.solution.tours_version)) }
}
impl Clone for SolutionContext { fn clone(&self) -> Self { SolutionContext { ..*self } } }
impl Copy for SolutionContext {}
pub enum UnassignmentInfo { Unknown }
/// assumed contract of finalize_unassigned (U02c): moves pending jobs to the unassigned list; tours untouched
pub fn finalize_unassigned(ic: &mut InsertionContext, _: UnassignmentInfo) { ic.solution.required.any = false; }
pub struct RefinementContext;
/// assumed contract of a ruin method: arbitrary change of the tours, aggregates in any state, may leave empty tours and pending jobs
/// behind; the problem definition is not exchanged.
/// assumed contract of a recreate method: arbitrary change of the tours, may leave an empty tour behind, the problem definition is
/// not exchanged, and it returns what InsertionHeuristic::process returns - finalized (below: process_returns_finalized)
pub trait Recreate { fn run(&self, refinement_ctx: &RefinementContext, insertion_ctx: InsertionContext) -> InsertionContext; }
pub trait Ruin { fn run(&self, refinement_ctx: &RefinementContext, insertion_ctx: InsertionContext) -> InsertionContext; }
pub trait HeuristicSearchOperator { type Context; type Objective; type Solution; fn search(&self, heuristic_ctx: &Self::Context, solution: &Self::Solution) -> Self::Solution; }
#[cfg(kani)]
fn havoc(mut ic: InsertionContext) -> InsertionContext {
    ic.solution = SolutionContext { tours_version: kani::any(), may_have_empty_tours: kani::any(), required: Pending { any: kani::any() }, aggregates_for: if kani::any() { Some((kani::any(), kani::any())) } else { None } };
    ic
}
#[cfg(kani)] pub struct AnyMethod;
#[cfg(kani)] impl Recreate for AnyMethod { fn run(&self, _: &RefinementContext, ic: InsertionContext) -> InsertionContext { let mut ic = havoc(ic); ic.solution.required.any = false; ic.solution.aggregates_for = Some((ic.problem.goal.id, ic.solution.tours_version)); ic } }
#[cfg(kani)] pub struct AnyQuota;
#[cfg(kani)] impl Quota for AnyQuota { fn is_reached(&self) -> bool { kani::any() } }
#[cfg(kani)] impl Ruin for AnyMethod { fn run(&self, _: &RefinementContext, ic: InsertionContext) -> InsertionContext { havoc(ic) } }
/// assumed contract of create_target_insertion_ctx (read off its body): a modified deep copy under an AMENDED goal (a different one)
#[cfg(kani)]
fn create_target_insertion_ctx(original_ctx: &InsertionContext, _: Range<i32>, _: Range<i32>) -> InsertionContext {
    let mut ic = havoc(original_ctx.deep_copy());
    let id: u8 = kani::any(); kani::assume(id != original_ctx.problem.goal.id);
    ic.problem = Arc::new(Problem { goal: Arc::new(GoalContext { id }) });
    ic
}

// environment of InsertionHeuristic::process: selectors select nothing observable, the evaluator answers anything, applying an answer
// changes the tours (success) or the buckets (failure) and leaves the aggregates in any state
pub struct Job; pub struct RouteContext; pub struct LegSelection;
pub trait JobSelector { fn prepare(&self, _: &mut InsertionContext) {} fn select<'a>(&'a self, _: &'a InsertionContext) -> std::iter::Empty<&'a Job> { std::iter::empty() } }
pub trait RouteSelector { fn prepare(&self, _: &mut InsertionContext) {} fn select<'a>(&'a self, _: &'a InsertionContext, _: &[&'a Job]) -> std::iter::Empty<&'a RouteContext> { std::iter::empty() } }
pub trait ResultSelector {}
pub struct InsertionSuccess; pub struct InsertionFailure;
pub enum InsertionResult { Success(InsertionSuccess), Failure(InsertionFailure) }
pub trait InsertionEvaluator { fn evaluate_all(&self, _: &InsertionContext, _: &[&Job], _: &[&RouteContext], _: &LegSelection, _: &(dyn ResultSelector)) -> InsertionResult; }
pub static mut ROUNDS: u8 = 0;
#[cfg(kani)]
fn after_apply(ic: &mut InsertionContext) {
    unsafe { ROUNDS += 1; }
    ic.solution.required.any = if unsafe { ROUNDS } >= 2 { false } else { kani::any() };     // bound: at most 2 rounds
    ic.solution.aggregates_for = if kani::any() { Some((kani::any(), kani::any())) } else { None };
}
#[cfg(kani)] pub(crate) fn apply_insertion_success(ic: &mut InsertionContext, _: InsertionSuccess) { ic.solution.tours_version = kani::any(); after_apply(ic); }
#[cfg(kani)] fn apply_insertion_failure(ic: &mut InsertionContext, _: InsertionFailure, _: &[usize], _: &[Job]) { after_apply(ic); }
fn copy_selection_data(_: &InsertionContext, _: &[&RouteContext], _: &[&Job]) -> (Vec<usize>, Vec<Job>) { (Vec::new(), Vec::new()) }
/// assumed contract of prepare_insertion_ctx's first line: unassigned jobs become pending again
pub(crate) fn prepare_insertion_ctx(insertion_ctx: &mut InsertionContext) {
    insertion_ctx.solution.required.any = insertion_ctx.solution.required.any || any_bool();
    insertion_ctx.problem.goal.accept_solution_state(&mut insertion_ctx.solution);
}
#[cfg(kani)] fn any_bool() -> bool { kani::any() }
#[cfg(not(kani))] fn any_bool() -> bool { false }

// ------------------------------------------------------------------ code under contract (verbatim from /repo)
//@extract vrp-core/src/construction/heuristics/insertions.rs :: struct InsertionHeuristic
//@end
impl InsertionHeuristic {
//@extract vrp-core/src/construction/heuristics/insertions.rs :: impl InsertionHeuristic#2/fn process
//@end
}
impl InsertionContext {
//@extract vrp-core/src/construction/heuristics/context.rs :: impl InsertionContext/fn restore
//@end
}
//@extract vrp-core/src/construction/heuristics/insertions.rs :: fn finalize_insertion_ctx
//@end
//@extract vrp-core/src/solver/search/redistribute_search.rs :: struct RedistributeSearch
//@end
//@extract vrp-core/src/solver/search/redistribute_search.rs :: impl HeuristicSearchOperator for RedistributeSearch
//@end
//@extract vrp-core/src/solver/search/ruin_recreate.rs :: struct RuinAndRecreate
//@end
//@extract vrp-core/src/solver/search/ruin_recreate.rs :: impl HeuristicSearchOperator for RuinAndRecreate
//@end

#[cfg(kani)]
mod h {
    use super::*;
    fn any_parent() -> InsertionContext {
        let ic = InsertionContext { problem: Arc::new(Problem { goal: Arc::new(GoalContext { id: kani::any() }) }), solution: SolutionContext { tours_version: 0, may_have_empty_tours: false, required: Pending { any: false }, aggregates_for: None }, environment: Arc::new(Environment { quota: if kani::any() { Some(Arc::new(AnyQuota)) } else { None } }) };
        havoc(ic)
    }
    fn post(parent: &InsertionContext, before: SolutionContext, goal: u8, r: &InsertionContext) {
        assert!(r.fresh(), "post_returned_aggregates_computed_after_last_change_of_tours_under_returned_goal");
        assert!(r.problem.goal.id == goal, "post_returned_under_the_original_problem_definition");
        assert!(r.solution.required.is_empty(), "post_no_job_left_pending");
        assert!(!r.solution.may_have_empty_tours || r.solution.aggregates_for.is_some(), "post_sanity");
        assert!(parent.problem.goal.id == goal && parent.solution.tours_version == before.tours_version && parent.solution.aggregates_for == before.aggregates_for
                && parent.solution.may_have_empty_tours == before.may_have_empty_tours && parent.solution.required.any == before.required.any, "post_parent_left_unchanged");
    }
    /// C05/C04 (loop-free, full ghost domain: complete relative to the assumed callee contracts)
    #[kani::proof]
    fn redistribute_search_hands_over_fresh_aggregates() {
        let parent = any_parent();
        let (before, goal) = (parent.solution, parent.problem.goal.id);
        let r = RedistributeSearch { recreate: Arc::new(AnyMethod) }.search(&RefinementContext, &parent);
        post(&parent, before, goal, &r);
        kani::cover!(r.solution.tours_version != before.tours_version);
    }
    #[kani::proof]
    fn ruin_and_recreate_hands_over_fresh_aggregates() {
        let parent = any_parent();
        let (before, goal) = (parent.solution, parent.problem.goal.id);
        let r = RuinAndRecreate { ruin: Arc::new(AnyMethod), recreate: Arc::new(AnyMethod) }.search(&RefinementContext, &parent);
        post(&parent, before, goal, &r);
        kani::cover!(r.solution.tours_version != before.tours_version);
    }
    /// what every recreate method built on the generalized insertion heuristic returns is finalized: nothing pending, aggregates
    /// computed after the last applied insertion, whether the loop ends by exhaustion or by quota (bounded: <= 2 rounds)
    struct AnyEvaluator; impl InsertionEvaluator for AnyEvaluator { fn evaluate_all(&self, _: &InsertionContext, _: &[&Job], _: &[&RouteContext], _: &LegSelection, _: &(dyn ResultSelector)) -> InsertionResult { if kani::any() { InsertionResult::Success(InsertionSuccess) } else { InsertionResult::Failure(InsertionFailure) } } }
    struct Sel; impl JobSelector for Sel {} impl RouteSelector for Sel {} impl ResultSelector for Sel {}
    #[kani::proof] #[kani::unwind(4)]
    fn process_returns_finalized() {
        let ic = any_parent();
        let goal = ic.problem.goal.id;
        let r = InsertionHeuristic { insertion_evaluator: Box::new(AnyEvaluator) }.process(ic, &Sel, &Sel, &LegSelection, &Sel);
        assert!(r.fresh() && r.problem.goal.id == goal, "post_process_returns_fresh_aggregates");
        assert!(r.solution.required.is_empty(), "post_process_leaves_nothing_pending");
        kani::cover!(unsafe { ROUNDS } == 2);
        kani::cover!(unsafe { ROUNDS } == 0);
    }
    /// restore() alone: aggregates are computed, under the current goal, and no empty tour remains; they describe the tours as they
    /// were BEFORE empty tours were dropped (so a caller that may have emptied a tour has to finalize afterwards)
    #[kani::proof]
    fn restore_computes_aggregates_then_drops_empty_tours() {
        let mut ic = any_parent();
        let (v0, had_empty) = (ic.solution.tours_version, ic.solution.may_have_empty_tours);
        ic.restore();
        assert!(ic.solution.aggregates_for == Some((ic.problem.goal.id, v0)), "post_restore_computes_aggregates_of_entry_tours");
        assert!(!ic.solution.may_have_empty_tours, "post_restore_leaves_no_empty_tour");
        assert!(had_empty || ic.fresh(), "post_restore_is_fresh_when_no_tour_was_empty");
    }
}
