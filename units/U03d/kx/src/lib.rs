// U03d – job_reader::get_single (vrp-pragmatic, verbatim): the (place index, tag) list stored with a job's task pairs every tag
// with the position of ITS place in the task's place list, and place i of the built Single carries the location, duration and
// times of input place i - so the tag reported with an activity (looked up by place index) is the tag of the place actually used.
#![allow(dead_code, unused_macros, unused_variables, unused_imports)]
#[path = "@VERIF_ENV@/strings.rs"]
mod verif_strings;
use verif_strings::String;
const VERIF_VEC_CAP: usize = 4;
#[path = "@VERIF_ENV@/vec_fixed.rs"]
mod verif_vec;
use verif_vec::Vec;

// ------------------------------------------------------------------ environment (assumed)
pub type Duration = f64;
pub type Location = usize;
/// time span reduced to a token (get_single only moves the list)
#[derive(Clone, Copy, PartialEq, Debug)]
pub struct TimeSpan { pub token: u8 }
/// API location reduced to a token; the coordinate index maps token t to core location t + 10
#[derive(Clone, Copy, PartialEq, Debug)]
pub struct ApiLocation { pub token: u8 }
pub struct CoordIndex { pub known: u8 }
impl CoordIndex { pub fn get_by_loc(&self, l: &ApiLocation) -> Option<usize> { if l.token < self.known { Some(l.token as usize + 10) } else { None } } }
type PlaceData = (Option<ApiLocation>, Duration, Vec<TimeSpan>, Option<String>);
/// Dimensions reduced to the one property get_single sets
#[derive(Default)]
pub struct Dimensions { pub place_tags: Option<Vec<(usize, String)>> }
impl Dimensions { pub fn set_place_tags(&mut self, tags: Vec<(usize, String)>) -> &mut Self { self.place_tags = Some(tags); self } }

// ------------------------------------------------------------------ code under contract (verbatim from /repo)
//@extract vrp-core/src/models/problem/jobs.rs :: struct Place attrs=drop
//@end
//@extract vrp-core/src/models/problem/jobs.rs :: struct Single attrs=drop
//@end
//@extract vrp-pragmatic/src/format/problem/job_reader.rs :: fn get_single
//@end

#[cfg(kani)]
mod h {
    use super::*;
    fn tag() -> Option<String> { if kani::any() { let i: u8 = kani::any(); kani::assume(i < 8); Some(String(i)) } else { None } }
    fn loc() -> Option<ApiLocation> { if kani::any() { let t: u8 = kani::any(); kani::assume(t < 4); Some(ApiLocation { token: t }) } else { None } }
    fn dur() -> f64 { let d: u8 = kani::any(); d as f64 }

    fn check<const N: usize>() {
        let input: [(Option<ApiLocation>, f64, u8, Option<String>); N] = std::array::from_fn(|_| (loc(), dur(), kani::any(), tag()));
        let places: Vec<PlaceData> = input.iter().map(|(l, d, t, g)| (*l, *d, [TimeSpan { token: *t }].into_iter().collect(), *g)).collect();
        let index = CoordIndex { known: 3 };
        let single = get_single(places, &index);
        assert!(single.places.len() == N, "post_one_place_per_input_place");
        let tags = single.dimens.place_tags.expect("post_tags_are_set");
        let mut i = 0;
        while i < N {
            let p = &single.places[i];
            assert!(p.duration == input[i].1 && p.times.len() == 1 && p.times[0].token == input[i].2, "post_place_i_has_the_duration_and_times_of_input_place_i");
            assert!(p.location == input[i].0.and_then(|l| if l.token < 3 { Some(l.token as usize + 10) } else { None }), "post_place_i_has_the_location_of_input_place_i");
            // the tag found for place index i (the writer's look-up: first entry whose index is i) is input place i's tag
            let found = tags.iter().find(|(idx, _)| *idx == i).map(|(_, t)| *t);
            assert!(found == input[i].3, "post_tag_of_place_index_i_is_the_tag_of_input_place_i");
            i += 1;
        }
        assert!(tags.iter().all(|(idx, _)| *idx < N), "post_every_tag_names_an_existing_place");
        kani::cover!(N < 2 || (input[0].3.is_none() && input[1].3.is_some()));
    }
    #[kani::proof] #[kani::unwind(6)] fn tags_follow_their_places_1() { check::<1>() }
    #[kani::proof] #[kani::unwind(6)] fn tags_follow_their_places_2() { check::<2>() }
    #[kani::proof] #[kani::unwind(6)] fn tags_follow_their_places_3() { check::<3>() }
}
