// U09c – Pareto dominance order used by multi-objective goal layers: rosomaxa dominance_order (verbatim)
#![allow(dead_code, unused_variables, unused_imports)]
use std::cmp::Ordering;

//@extract rosomaxa/src/evolution/objectives.rs :: fn dominance_order
//@end

#[cfg(kani)]
mod h {
    use super::*;
    fn any_ord() -> Ordering { let v: u8 = kani::any(); kani::assume(v < 3); match v { 0 => Ordering::Less, 1 => Ordering::Equal, _ => Ordering::Greater } }
    /// a solution is identified by a tag; objective i compares two solutions by a symbolic, antisymmetric table entry
    #[derive(Clone, Copy, PartialEq, Eq)]
    struct S(u8);

    /// C09: comparison under a multi-objective (dominance) layer is reflexive and antisymmetric, and it is the Pareto
    /// dominance relation: Less iff some objective is better and none worse, Greater iff some worse and none better
    #[kani::proof] #[kani::unwind(6)]
    fn dominance_order_is_pareto_dominance() {
        const N: usize = 3;
        let n: usize = kani::any();
        kani::assume(n <= N);
        let ab: [Ordering; N] = [any_ord(), any_ord(), any_ord()]; // objective i on (a, b); on (b, a) it is the reverse
        let (a, b) = (S(0), S(1));
        let f = |i: usize| move |x: &S, y: &S| if x == y { Ordering::Equal } else if *x == S(0) { ab[i] } else { ab[i].reverse() };
        let fwd = dominance_order(&a, &b, (0..n).map(f));
        let bwd = dominance_order(&b, &a, (0..n).map(f));
        let same = dominance_order(&a, &a, (0..n).map(f));
        let (mut less, mut greater) = (false, false);
        let mut i = 0;
        while i < n { less = less || ab[i] == Ordering::Less; greater = greater || ab[i] == Ordering::Greater; i += 1; }
        assert!(same == Ordering::Equal, "post_dominance_reflexive");
        assert!(bwd == fwd.reverse(), "post_dominance_antisymmetric");
        assert!((fwd == Ordering::Less) == (less && !greater), "post_less_iff_some_better_none_worse");
        assert!((fwd == Ordering::Greater) == (greater && !less), "post_greater_iff_some_worse_none_better");
        kani::cover!(n == 3 && less && greater);
        kani::cover!(n == 3 && less && !greater);
    }
}
