// U06b – leg enumeration of the insertion evaluator in exhaustive mode: LegSelection::sample_best (selectors.rs, verbatim)
// over the verbatim Tour::legs
#![allow(dead_code, unused_variables, unused_imports, mismatched_lifetime_syntaxes)]
#[path = "@VERIF_ENV@/collections.rs"]
mod verif_env;
use verif_env::HashSet;
use std::hash::BuildHasherDefault;
use std::iter::once;
use std::slice::{Iter, IterMut};
use std::ops::ControlFlow;
use std::sync::Arc;

// ------------------------------------------------------------------ environment (assumed)
pub struct FxHasher;
#[derive(Clone, PartialEq, Eq, Debug)] pub struct Job(pub u8);
/// activities carry a tag so that the harness can recognise them; real Activity has place/schedule/commute
pub struct Activity { pub tag: u8, pub job: Option<u8> }
impl Activity {
    pub fn deep_copy(&self) -> Self { Self { tag: self.tag, job: self.job } }
    pub fn has_same_job(&self, job: &Job) -> bool { self.job == Some(job.0) }
    pub fn retrieve_job(&self) -> Option<Job> { self.job.map(Job) }
}
pub type Leg<'a> = (&'a [Activity], usize);
pub struct Route { pub tour: Tour }
pub struct RouteContext { pub route: Route }
impl RouteContext { pub fn route(&self) -> &Route { &self.route } }
pub enum JobKind { Single(u8), Multi(u8) }
pub trait Random { fn uniform_int(&self, min: i32, max: i32) -> i32; }
/// stochastic sampling (utils::iterators::sample_search: which legs are probed) is NOT under contract; this stand-in records
/// what it is GIVEN - the sequence of items and the index the caller's index function assigns to each - and finds nothing
pub static mut OFFERED: [usize; 24] = [usize::MAX; 24];
pub static mut OFFERED_N: usize = 0;
pub trait SampleSearch: Iterator + Sized {
    #[allow(static_mut_refs)]
    fn sample_search<R, FM, FI, FC>(self, _: usize, _: Arc<dyn Random>, _: FM, index_fn: FI, _: FC) -> Option<R> where FM: FnMut(Self::Item) -> R, FI: Fn(&Self::Item) -> usize, FC: Fn(&R, &R) -> bool {
        for item in self { unsafe { OFFERED[OFFERED_N] = index_fn(&item); OFFERED_N += 1; } }
        None
    }
}
impl<T: Iterator> SampleSearch for T {}

// ------------------------------------------------------------------ code under contract (verbatim from /repo)
//@extract vrp-core/src/utils/types.rs :: enum Either
//@end
//@extract vrp-core/src/utils/types.rs :: impl<L, R> Clone for Either<L, R>
//@end
//@extract vrp-core/src/utils/types.rs :: impl<L, R, T> Iterator for Either<L, R>
//@end
//@extract vrp-core/src/models/solution/tour.rs :: struct Tour
//@end
//@extract vrp-core/src/models/solution/tour.rs :: impl Tour/* skip=new
//@end

//@extract rosomaxa/src/utils/types.rs :: trait UnwrapValue
//@end
//@extract rosomaxa/src/utils/types.rs :: impl<T> UnwrapValue for ControlFlow<T, T>
//@end
//@extract vrp-core/src/construction/heuristics/selectors.rs :: enum LegSelection
//@subst "#[derive(Clone)]" => "" count=1
//@end
//@extract vrp-core/src/construction/heuristics/selectors.rs :: impl LegSelection
//@subst "job: &Job" => "job: &JobKind" count=2
//@subst "Job::Single(_)" => "JobKind::Single(_)" count=2
//@subst "Job::Multi(_)" => "JobKind::Multi(_)" count=2
//@end

#[cfg(kani)]
mod h {
    use super::*;
    fn tour(n: usize, closed: bool) -> Tour {
        let mut t = Tour::default();
        t.set_start(Activity { tag: 0, job: None });
        if closed { t.set_end(Activity { tag: 9, job: None }); }
        let mut k = 0;
        while k < n { t.insert_last(Activity { tag: 1 + k as u8, job: Some(k as u8) }); k += 1; }
        t
    }
    /// C06 (exhaustive best-insertion mode): every leg from `skip` on is offered to the evaluator exactly once, in tour order,
    /// until the evaluator says stop; the accumulator is threaded through and returned
    fn exhaustive(n: usize, closed: bool) {
        let rc = RouteContext { route: Route { tour: tour(n, closed) } };
        let total_legs = if n == 0 && !closed { 1 } else if closed { n + 1 } else { n + 1 };
        let skip: usize = kani::any(); kani::assume(skip <= total_legs);
        let stop_at: usize = kani::any(); kani::assume(stop_at <= total_legs);      // the evaluator breaks at this leg index (== total: never)
        let mut seen = [usize::MAX; 6];
        let mut cnt = 0;
        let r = LegSelection::Exhaustive.sample_best(&rc, &JobKind::Single(0), skip, 100usize, |leg: Leg, acc: usize| {
            seen[cnt] = leg.1; cnt += 1;
            if leg.1 == stop_at { ControlFlow::Break(acc + 1000) } else { ControlFlow::Continue(acc + 1) }
        }, |_: &usize, _: &usize| true);
        let last = if stop_at >= skip && stop_at < total_legs { stop_at } else { total_legs.max(skip) - 1 + (if skip >= total_legs { 1 } else { 0 }) };
        let expected = if skip >= total_legs { 0 } else if stop_at >= skip && stop_at < total_legs { stop_at - skip + 1 } else { total_legs - skip };
        assert!(cnt == expected, "post_every_leg_from_skip_offered_once_until_stop");
        let mut i = 0;
        while i < cnt { assert!(seen[i] == skip + i, "post_legs_offered_in_tour_order"); i += 1; }
        let broke = stop_at >= skip && stop_at < total_legs;
        assert!(r == 100 + (if broke { cnt - 1 + 1000 } else { cnt }), "post_accumulator_threaded_and_returned");
    }
    /// C04/C06 (multi-task jobs: a later task is only tried behind the previous one): also in the stochastic mode the sampler
    /// is given exactly the legs from `skip` on, once each, in tour order, indexed from 0
    struct Rnd; impl Random for Rnd { fn uniform_int(&self, min: i32, _: i32) -> i32 { min } }
    #[kani::proof] #[kani::unwind(24)]
    #[allow(static_mut_refs)]
    fn stochastic_sampler_is_given_exactly_the_legs_from_skip() {
        let rc = RouteContext { route: Route { tour: tour(19, true) } };          // 20 legs
        let skip: usize = kani::any(); kani::assume(skip <= 4);                      // >= 16 legs left: the sampling branch (threshold 16 for a multi job)
        let r = LegSelection::Stochastic(Arc::new(Rnd)).sample_best(&rc, &JobKind::Multi(0), skip, 7usize, |_: Leg, acc: usize| ControlFlow::Continue(acc), |_: &usize, _: &usize| true);
        assert!(r == 7, "post_nothing_found_returns_the_initial_value");
        unsafe {
            assert!(OFFERED_N == 20 - skip, "post_sampler_given_every_leg_from_skip_once");
            let mut i = 0;
            while i < OFFERED_N { assert!(OFFERED[i] == i, "post_sampler_indexes_legs_from_zero_in_tour_order"); i += 1; }
        }
    }
    #[kani::proof] #[kani::unwind(7)] fn exhaustive_closed_2() { exhaustive(2, true) }
    #[kani::proof] #[kani::unwind(7)] fn exhaustive_open_2() { exhaustive(2, false) }
    #[kani::proof] #[kani::unwind(7)] fn exhaustive_closed_0() { exhaustive(0, true) }
}
