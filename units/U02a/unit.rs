// U02a – JobRemovalTracker::try_remove_job (+ RouteContext accessors) verified against the *verified* Tour contracts of U14a.
#![feature(allocator_api)]
#![allow(unused_imports, dead_code)]
use vstd::prelude::*;
use std::collections::HashSet;
use std::collections::HashMap;
use std::sync::Arc;
verus! {

//@include U14a/unit.rs tour-core

// [[route-ctx
// ---------------------------------------------------------------- environment (assumed, not verified)
pub axiom fn ax_actor_key_model() ensures vstd::std_specs::hash::obeys_key_model::<ActorRef>();
/// identity of an actor (real: Arc<Actor>, compared/hashed by pointer)
#[derive(PartialEq, Eq, Hash, Clone, Copy)]
pub struct ActorRef { pub id: u64 }

/// real: `pub struct Route { pub actor: Arc<Actor>, pub tour: Tour }` (models/solution/route.rs)
pub struct Route { pub actor: ActorRef, pub tour: Tour }

/// opaque cached state bag (real: HashMap<TypeId, Arc<dyn Any>>)
pub struct RouteState { pub token: u64 }

pub struct RouteCache { is_stale: bool }

/// field list mirrors construction/heuristics/context.rs
pub struct RouteContext {
    route: Route,
    state: RouteState,
    cache: RouteCache,
}

impl RouteContext {
    pub closed spec fn v_route(&self) -> Route { self.route }
    pub closed spec fn v_state(&self) -> RouteState { self.state }
    pub closed spec fn v_stale(&self) -> bool { self.cache.is_stale }

//@extract vrp-core/src/construction/heuristics/context.rs :: impl RouteContext/fn new_with_state ret=r vis=private
//@| ensures r.v_route() == route, r.v_state() == state, r.v_stale(),
//@end

//@extract vrp-core/src/construction/heuristics/context.rs :: impl RouteContext/fn route ret=r vis=private
//@| ensures *r == self.v_route(),
//@end

//@extract vrp-core/src/construction/heuristics/context.rs :: impl RouteContext/fn state ret=r vis=private
//@| ensures *r == self.v_state(),
//@end

//@extract vrp-core/src/construction/heuristics/context.rs :: impl RouteContext/fn mark_stale vis=private
//@| ensures final(self).v_stale() == is_stale, final(self).v_route() == old(self).v_route(), final(self).v_state() == old(self).v_state(),
//@end

//@extract vrp-core/src/construction/heuristics/context.rs :: impl RouteContext/fn is_stale ret=r vis=private
//@| ensures r == self.v_stale(),
//@end

//@extract vrp-core/src/construction/heuristics/context.rs :: impl RouteContext/fn route_mut ret=r vis=private
//@| ensures *r == old(self).v_route(),
//@|         final(self).v_route() == *final(r),
//@|         final(self).v_state() == old(self).v_state(),
//@|         final(self).v_stale(),
//@end

//@extract vrp-core/src/construction/heuristics/context.rs :: impl RouteContext/fn state_mut ret=r vis=private
//@| ensures *r == old(self).v_state(),
//@|         final(self).v_state() == *final(r),
//@|         final(self).v_route() == old(self).v_route(),
//@|         final(self).v_stale(),
//@end

//@extract vrp-core/src/construction/heuristics/context.rs :: impl RouteContext/fn as_mut ret=r vis=private
//@| ensures *r.0 == old(self).v_route(), *r.1 == old(self).v_state(),
//@|         final(self).v_route() == *final(r.0),
//@|         final(self).v_state() == *final(r.1),
//@|         final(self).v_stale(),
//@end
}
// ]]route-ctx

// ---------------------------------------------------------------- environment of removal.rs (assumed)
/// real SolutionContext (context.rs) also has `registry` and `state`; the function under contract does not touch them
pub struct SolutionContext {
    pub required: Vec<Job>,
    pub ignored: Vec<Job>,
    pub unassigned: HashMap<Job, i32>,
    pub locked: HashSet<Job>,
    pub routes: Vec<RouteContext>,
}

/// number of activities a job contributes (real: 1 for Single, multi.jobs.len() for Multi)
pub uninterp spec fn job_size(j: Job) -> nat;
#[verifier::external_body]
fn get_total_activities(job: &Job) -> (r: usize) ensures r == job_size(*job) { unimplemented!() }

/// tours of all routes, as views
pub open spec fn tour_of(s: SolutionContext, i: int) -> Tour { s.routes@[i].v_route().tour }

pub struct JobRemovalTracker {
    activities_left: i32,
    routes_left: i32,
    affected_actors: HashSet<ActorRef>,
    removed_jobs: HashSet<Job>,
}

impl JobRemovalTracker {
    pub closed spec fn left(&self) -> int { self.activities_left as int }
    pub closed spec fn routes_left(&self) -> int { self.routes_left as int }
    pub closed spec fn removed(&self) -> Set<Job> { self.removed_jobs@ }
    pub closed spec fn affected(&self) -> Set<ActorRef> { self.affected_actors@ }

//@extract vrp-core/src/solver/search/utils/removal.rs :: impl JobRemovalTracker/fn is_limit ret=r vis=private
//@| ensures r == (self.left() == 0 || self.routes_left() == 0),
//@end

//@extract vrp-core/src/solver/search/utils/removal.rs :: impl JobRemovalTracker/fn is_removed_job ret=r vis=private
//@| ensures r == self.removed().contains(*job),
//@prologue proof { ax_job_key_model(); }
//@end

//@extract vrp-core/src/solver/search/utils/removal.rs :: impl JobRemovalTracker/fn try_remove_job ret=r vis=private
//@| requires
//@|     old(self).left() >= 0,
//@|     job_size(*job) <= 0x0fff_ffff,
//@|     forall|i: int| 0 <= i < old(solution).routes@.len() ==> (#[trigger] old(solution).routes@[i]).v_route().tour.wf(),
//@| ensures
//@|     // a job is removed only from the named route, only if it is there, not locked and the budget is not exhausted
//@|     r <==> (old(self).left() != 0 && !old(solution).locked@.contains(*job) && route_idx < old(solution).routes@.len()
//@|             && tour_of(*old(solution), route_idx as int).jobset().contains(*job)),
//@|     // … then it leaves that tour entirely and is queued exactly once more in `required`
//@|     r ==> final(solution).required@ == old(solution).required@.push(*job)
//@|        && tour_of(*final(solution), route_idx as int).jobset() == tour_of(*old(solution), route_idx as int).jobset().remove(*job)
//@|        && tour_of(*final(solution), route_idx as int).acts() == tour_of(*old(solution), route_idx as int).acts().filter(keeps(*job))
//@|        && final(solution).routes@[route_idx as int].v_stale()
//@|        && final(self).removed() == old(self).removed().insert(*job)
//@|        && final(self).affected() == old(self).affected().insert(old(solution).routes@[route_idx as int].v_route().actor)
//@|        && final(self).left() == (if old(self).left() - job_size(*job) > 0 { old(self).left() - job_size(*job) } else { 0 }),
//@|     // otherwise nothing observable changes
//@|     !r ==> final(solution).required@ == old(solution).required@
//@|        && final(self).removed() == old(self).removed() && final(self).affected() == old(self).affected() && final(self).left() == old(self).left()
//@|        && forall|i: int| 0 <= i < old(solution).routes@.len() ==> (#[trigger] final(solution).routes@[i]).v_route().tour.acts() == tour_of(*old(solution), i).acts()
//@|                                                               && tour_of(*final(solution), i).jobset() == tour_of(*old(solution), i).jobset(),
//@|     // frame: nothing else moves
//@|     final(solution).locked@ == old(solution).locked@,
//@|     final(solution).ignored@ == old(solution).ignored@,
//@|     final(solution).unassigned@ == old(solution).unassigned@,
//@|     final(solution).routes@.len() == old(solution).routes@.len(),
//@|     final(self).routes_left() == old(self).routes_left(),
//@|     forall|i: int| 0 <= i < old(solution).routes@.len() && i != route_idx ==> final(solution).routes@[i] == old(solution).routes@[i],
//@|     forall|i: int| 0 <= i < old(solution).routes@.len() ==> (#[trigger] final(solution).routes@[i]).v_route().tour.wf()
//@|         && tour_of(*final(solution), i).closed() == tour_of(*old(solution), i).closed()
//@|         && final(solution).routes@[i].v_route().actor == old(solution).routes@[i].v_route().actor
//@|         && final(solution).routes@[i].v_state() == old(solution).routes@[i].v_state(),
//@prologue proof { ax_job_key_model(); ax_actor_key_model(); if route_idx < old(solution).routes@.len() { let t = tour_of(*old(solution), route_idx as int); assert(t.wf()); lemma_filter_absent(t.acts(), t.jobset(), t.closed(), *job); } }
//@end
}

/// removing a job that is not in a well-formed tour changes nothing
pub proof fn lemma_filter_absent(s: Seq<Activity>, js: Set<Job>, closed: bool, job: Job)
    requires wf_view(s, js, closed),
    ensures !js.contains(job) ==> s.filter(keeps(job)) == s && js.remove(job) == js,
{
    if !js.contains(job) {
        assert forall|i: int| 0 <= i < s.len() implies keeps(job)(#[trigger] s[i]) by {
            if s[i].job_of() == Some(job) { assert(serves(s, job)); }
        }
        lemma_filter_all(s, keeps(job));
        assert(js.remove(job) =~= js);
    }
}

pub proof fn lemma_filter_all<T>(s: Seq<T>, p: spec_fn(T) -> bool)
    requires forall|i: int| 0 <= i < s.len() ==> p(#[trigger] s[i]),
    ensures s.filter(p) == s,
    decreases s.len()
{
    reveal_with_fuel(Seq::filter, 1);
    if s.len() > 0 {
        let q = s.drop_last();
        assert forall|i: int| 0 <= i < q.len() implies p(#[trigger] q[i]) by { assert(q[i] == s[i]); }
        lemma_filter_all(q, p);
        assert(s == q.push(s.last()));
    }
}

// vacuity guard: must be REJECTED by Verus
pub proof fn vacuity_removal_pre(s: SolutionContext, t: JobRemovalTracker, job: Job)
    requires t.left() > 0, job_size(job) <= 0x0fff_ffff, s.routes@.len() == 2,
        forall|i: int| 0 <= i < s.routes@.len() ==> (#[trigger] s.routes@[i]).v_route().tour.wf(),
        tour_of(s, 0).jobset().contains(job), !s.locked@.contains(job),
{
    assert(false);
}

} // verus!
fn main() {}
