// U06c – eval_single (evaluators.rs, verbatim body, Verus): the per-route result for a single-task job is a success exactly
// when the leg analysis found a place, and then carries exactly that place, index and cost; otherwise the reported failure
// carries the violation the analysis kept
#![feature(const_destruct)]
#![allow(unused_imports, dead_code)]
use vstd::prelude::*;
use std::sync::Arc;
verus! {

// ---------------------------------------------------------------- environment (assumed)
// std contract missing from vstd
pub assume_specification<T, U, F: FnOnce(T) -> U>[core::option::Option::<T>::map_or](o: Option<T>, default: U, f: F) -> (r: U)
    requires o is Some ==> f.requires((o->0,)),
    ensures o is None ==> r == default, o is Some ==> f.ensures((o->0,), r);
#[derive(Clone, Copy)] pub struct Job { pub id: u64 }
#[verifier::external_body] pub struct Single { _p: () }
pub struct InsertionCost { pub rank: int }
impl Default for InsertionCost { #[verifier::external_body] fn default() -> (r: Self) ensures r == default_cost() { unimplemented!() } }
pub uninterp spec fn default_cost() -> InsertionCost;
#[derive(Clone, Copy)] pub struct ViolationCode(pub i32);
impl ViolationCode { pub fn unknown() -> (r: Self) ensures r == ViolationCode(-1i32) { Self(-1) } }
pub struct ConstraintViolation { pub code: ViolationCode, pub stopped: bool }
pub struct Place { pub idx: usize, pub token: int }
/// real Activity also has schedule/job/commute; eval_single only replaces `place`
pub struct Activity { pub place: Place, pub of: int }
pub uninterp spec fn fresh_activity(s: Arc<Single>) -> Activity;
impl Activity { #[verifier::external_body] pub fn new_with_job(job: Arc<Single>) -> (r: Self) ensures r == fresh_activity(job) { unimplemented!() } }
pub struct RouteContext { pub token: int }
pub struct SolutionContext { pub token: int }
pub struct LegSelection { pub token: int }
pub struct EvaluationContext<'a> { pub job: &'a Job, pub leg_selection: &'a LegSelection }
#[derive(Clone, Copy)] pub enum InsertionPosition { Any, Concrete(usize), Last }
pub struct InsertionSuccess { pub cost: InsertionCost, pub job: Job, pub activities: Vec<(Activity, usize)> }
pub struct InsertionFailure { pub constraint: ViolationCode, pub stopped: bool, pub job: Option<Job> }
pub enum InsertionResult { Success(InsertionSuccess), Failure(InsertionFailure) }
impl InsertionResult {
    #[verifier::external_body]
    pub fn make_success(cost: InsertionCost, job: Job, activities: Vec<(Activity, usize)>, route_ctx: &RouteContext) -> (r: Self)
        ensures r == InsertionResult::Success(InsertionSuccess { cost, job, activities }) { unimplemented!() }
    #[verifier::external_body]
    pub fn make_failure_with_code(code: ViolationCode, stopped: bool, job: Option<Job>) -> (r: Self)
        ensures r == InsertionResult::Failure(InsertionFailure { constraint: code, stopped, job }) { unimplemented!() }
}
/// leg / place / window analysis below this function: units U06a (kernel) and U06b (leg enumeration); here an arbitrary result
pub uninterp spec fn analysis(route_ctx: &RouteContext, insertion_idx: Option<usize>, single: &Single, route_costs: InsertionCost, init: SingleContext) -> SingleContext;
#[verifier::external_body]
fn analyze_insertion_in_route(eval_ctx: &EvaluationContext, solution_ctx: &SolutionContext, route_ctx: &RouteContext, insertion_idx: Option<usize>,
    single: &Single, target: &mut Activity, route_costs: InsertionCost, init: SingleContext) -> (r: SingleContext)
    ensures r == analysis(route_ctx, insertion_idx, single, route_costs, init), final(target).of == old(target).of { unimplemented!() }
pub uninterp spec fn insertion_index(route_ctx: &RouteContext, position: InsertionPosition) -> Option<usize>;
#[verifier::external_body]
fn get_insertion_index(route_ctx: &RouteContext, position: InsertionPosition) -> (r: Option<usize>) ensures r == insertion_index(route_ctx, position) { unimplemented!() }

// ---------------------------------------------------------------- code under contract (verbatim from /repo)
//@extract vrp-core/src/construction/heuristics/evaluators.rs :: struct SingleContext attrs=drop
//@end
impl SingleContext {
//@extract vrp-core/src/construction/heuristics/evaluators.rs :: impl SingleContext/fn new ret=r vis=private
//@| ensures r == (SingleContext { violation: None, index, cost, place: None }),
//@end
}

//@extract vrp-core/src/construction/heuristics/evaluators.rs :: fn eval_single ret=r vis=private
//@| ensures ({
//@|     let a = analysis(route_ctx, insertion_index(route_ctx, position), &**single, route_costs, SingleContext { violation: None, index: 0, cost: best_known_cost, place: None });
//@|     match a.place {
//@|         // a place was found: success with exactly that place, at the index and with the cost the analysis returned
//@|         Some(place) => r is Success
//@|             && r->Success_0.job == *eval_ctx.job
//@|             && r->Success_0.activities@.len() == 1
//@|             && r->Success_0.activities@[0].0.place == place
//@|             && r->Success_0.activities@[0].0.of == fresh_activity(*single).of
//@|             && r->Success_0.activities@[0].1 == a.index
//@|             && r->Success_0.cost == (match a.cost { Some(c) => c, None => default_cost() }),
//@|         // nothing found: failure carrying the violation the analysis kept (or "unknown", not stopping)
//@|         None => r is Failure
//@|             && r->Failure_0.job == Some(*eval_ctx.job)
//@|             && (match a.violation { Some(v) => r->Failure_0.constraint.0 == v.code.0 && r->Failure_0.stopped == v.stopped,
//@|                                     None => r->Failure_0.constraint.0 == -1i32 && !r->Failure_0.stopped }),
//@|     }
//@| }),
//@closure 1 |v: ConstraintViolation| -> (o: (ViolationCode, bool)) ensures o.0 == v.code, o.1 == v.stopped
//@end

// vacuity guard: must be REJECTED
proof fn vacuity_analysis_arbitrary(rc: &RouteContext, s: &Single, c: InsertionCost, i: SingleContext) { assert(analysis(rc, None, s, c, i).place is None); }

} // verus!
fn main() {}
