// U16b – time-dependent matrix routing: TimeAwareMatrixTransportCost::new + interpolate_duration/interpolate_distance (verbatim)
#![allow(dead_code, unused_variables, unused_imports)]
#[path = "@VERIF_ENV@/collections.rs"]
mod verif_env;
use verif_env::HashMap;
use std::hash::Hash;

// ------------------------------------------------------------------ environment (assumed)
pub type Float = f64;
pub type Duration = Float;
pub type Distance = Float;
pub type Location = usize;
pub type Timestamp = Float;
/// real: GenericError(String); the message text is dropped
pub struct GenericError;
impl From<&str> for GenericError { fn from(_: &str) -> Self { GenericError } }
#[derive(Clone, Copy)]
pub enum TravelTime { Arrival(Timestamp), Departure(Timestamp) }
pub trait TransportFallback {
    fn duration(&self, profile: &Profile, from: Location, to: Location) -> Duration;
    fn distance(&self, profile: &Profile, from: Location, to: Location) -> Distance;
}

// ------------------------------------------------------------------ code under contract (verbatim from /repo)
//@extract rosomaxa/src/utils/iterators.rs :: trait CollectGroupBy
//@end
//@extract rosomaxa/src/utils/iterators.rs :: impl<T: Iterator> CollectGroupBy for T
//@end
//@extract vrp-core/src/models/common/domain.rs :: struct Profile
//@end
//@extract vrp-core/src/models/problem/costs.rs :: struct MatrixData
//@end
//@extract vrp-core/src/models/problem/costs.rs :: struct TimeAwareMatrixTransportCost
//@end
//@extract vrp-core/src/models/problem/costs.rs :: impl<T: TransportFallback> TimeAwareMatrixTransportCost<T>
//@end

// ------------------------------------------------------------------ contract harnesses
#[cfg(kani)]
mod h {
    use super::*;
    struct Fb;
    impl TransportFallback for Fb {
        fn duration(&self, _: &Profile, _: Location, _: Location) -> Duration { -7. }
        fn distance(&self, _: &Profile, _: Location, _: Location) -> Distance { -9. }
    }
    fn ts() -> Float { let v: u8 = kani::any(); kani::assume(v < 8); v as Float }
    fn val() -> Float { let v: u8 = kani::any(); kani::assume(v < 16); v as Float }

    /// N matrices of one profile (1x1, so the data index is 0) with distinct integer timestamps;
    /// query at an arbitrary integer-valued time. Expected values are computed from the set of (timestamp, value) pairs
    /// alone, exactly as the property states them.
    fn lookup<const N: usize>(between: bool) {
        let stamps: [Float; N] = core::array::from_fn(|_| ts());
        let durs: [Float; N] = core::array::from_fn(|_| val());
        let dists: [Float; N] = core::array::from_fn(|_| val());
        // the provider is built DIRECTLY in the state its constructor is meant to establish (per profile: matrices sorted by
        // timestamp, timestamps listed in the same order): the constructor itself (`new`: group-by + std stable sort of
        // MatrixData + collect into a map) does not finish in CBMC (> 25 min even on constant data) and is NOT under contract
        let mut i = 1;
        while i < N { kani::assume(stamps[i - 1] < stamps[i]); i += 1; }
        let matrices: Vec<MatrixData> = (0..N).map(|i| MatrixData { index: 0, timestamp: Some(stamps[i]), durations: vec![durs[i]], distances: vec![dists[i]] }).collect();
        let timestamps: Vec<u64> = (0..N).map(|i| stamps[i] as u64).collect();
        let mut costs = HashMap::default();
        costs.insert(0usize, (timestamps, matrices));
        let c = TimeAwareMatrixTransportCost { costs, size: 1, fallback: Fb };
        let scale: Float = if kani::any() { 1. } else { 2. };
        let profile = Profile { index: 0, scale };
        let t = ts();
        // float division (the interpolation) is what CBMC is slow on: the "between two matrices" case is a harness of its own
        let strictly_between = { let (mut below, mut above, mut at) = (false, false, false); let mut i = 0; while i < N { below = below || stamps[i] < t; above = above || stamps[i] > t; at = at || stamps[i] == t; i += 1; } below && above && !at };
        kani::assume(strictly_between == between);
        let tt = if kani::any() { TravelTime::Departure(t) } else { TravelTime::Arrival(t) };
        let (dur, dist) = (c.interpolate_duration(&profile, 0, 0, tt), c.interpolate_distance(&profile, 0, 0, tt));
        // bracketing matrices: the latest one at or before t, the earliest one after t
        let (mut lo, mut hi): (Option<usize>, Option<usize>) = (None, None);
        let mut i = 0;
        while i < N {
            if stamps[i] <= t && lo.map_or(true, |l| stamps[l] < stamps[i]) { lo = Some(i); }
            if stamps[i] > t && hi.map_or(true, |h| stamps[h] > stamps[i]) { hi = Some(i); }
            i += 1;
        }
        match (lo, hi) {
            (Some(l), _) if stamps[l] == t => { assert!(dur == durs[l] * scale, "post_duration_at_matrix_timestamp_is_that_matrix"); assert!(dist == dists[l], "post_distance_at_matrix_timestamp_is_that_matrix"); }
            (None, Some(h)) => { assert!(dur == durs[h] * scale, "post_duration_before_first_is_first_matrix"); assert!(dist == dists[h], "post_distance_before_first_is_first_matrix"); }
            (Some(l), None) => { assert!(dur == durs[l] * scale, "post_duration_after_last_is_last_matrix"); assert!(dist == dists[l], "post_distance_after_last_is_last_matrix"); }
            (Some(l), Some(h)) => {
                let expect = (durs[l] + (t - stamps[l]) / (stamps[h] - stamps[l]) * (durs[h] - durs[l])) * scale;
                assert!(dur == expect, "post_duration_between_is_linear_interpolation");
                let (a, b) = if durs[l] <= durs[h] { (durs[l], durs[h]) } else { (durs[h], durs[l]) };
                assert!(dur >= a * scale && dur <= b * scale, "post_duration_between_bracketing_values");
                assert!(dist == dists[l], "post_distance_between_is_left_matrix");
            }
            (None, None) => {}
        }
        kani::cover!(between || lo.is_none());
        kani::cover!(between || hi.is_none());
        kani::cover!(between || (lo.is_some() && hi.is_some()));
        kani::cover!(!between || (lo.is_some() && hi.is_some()));
    }
    #[kani::proof] #[kani::unwind(6)] fn time_aware_lookup_at_or_outside_2() { lookup::<2>(false) }
    #[kani::proof] #[kani::unwind(7)] fn time_aware_lookup_at_or_outside_3() { lookup::<3>(false) }
    #[kani::proof] #[kani::unwind(6)] fn time_aware_lookup_between_2() { lookup::<2>(true) }
    #[kani::proof] #[kani::unwind(7)] fn time_aware_lookup_between_3() { lookup::<3>(true) }


    // (a harness through TimeAwareMatrixTransportCost::new - 2 matrices, timestamps 0..3 - did not finish in CBMC within 3000 s / 24 GB
    //  and is not registered: the constructor's grouping and sorting is NOT under contract)
}
