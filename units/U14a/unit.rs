// U14a – Tour: representation invariant and whole-view contracts of every mutator and getter (Verus, unbounded).
// Generated file layout: trusted environment (this text) + functions extracted verbatim from
// vrp-core/src/models/solution/tour.rs with the contracts spliced in at the //@extract blocks.
#![feature(allocator_api)]
#![allow(unused_imports, dead_code)]
use vstd::prelude::*;
use std::collections::HashSet;
use std::sync::Arc;
verus! {

// [[tour-core
// ---------------------------------------------------------------- environment (assumed, not verified)
pub axiom fn ax_job_key_model() ensures vstd::std_specs::hash::obeys_key_model::<Job>();

/// abstract identity of a job: the real shape `enum Job { Single(Arc<Single>), Multi(Arc<Multi>) }` with the pointers
/// (pointer identity in the real code) replaced by opaque ids
#[derive(PartialEq, Eq, Hash, Clone, Copy)]
pub enum Job { Single(u64), Multi(u64) }

#[verifier::external_body]
pub struct Single { _p: () }
/// the job an activity's `Single` belongs to (real: `Multi::roots(single)` or the single itself)
pub uninterp spec fn job_of_single(s: Arc<Single>) -> Job;

/// real `Activity` also has `place`, `schedule`, `commute`; the functions under contract touch `job` only
pub struct Activity { pub job: Option<Arc<Single>> }

impl Activity {
    pub open spec fn job_of(&self) -> Option<Job> { match self.job { Some(s) => Some(job_of_single(s)), None => None } }
    #[verifier::external_body]
    pub fn retrieve_job(&self) -> (r: Option<Job>) ensures r == self.job_of() { unimplemented!() }
    #[verifier::external_body]
    pub fn has_same_job(&self, job: &Job) -> (r: bool) ensures r == (self.job_of() == Some(*job)) { unimplemented!() }
}

// std contract missing from vstd: retain keeps exactly the elements accepted by the predicate, in order
pub assume_specification<T, A: core::alloc::Allocator, F: FnMut(&T) -> bool>[Vec::<T, A>::retain](v: &mut Vec<T, A>, f: F)
    requires forall|x: &T| #[trigger] f.requires((x,)),
    ensures
        final(v)@ == old(v)@.filter(|x: T| f.ensures((&x,), true)),
        forall|x: &T| f.ensures((x,), true) || f.ensures((x,), false);

// ---------------------------------------------------------------- proved helper lemmas (specification only)
pub broadcast proof fn lemma_filter_ext<T>(s: Seq<T>, p: spec_fn(T) -> bool, q: spec_fn(T) -> bool)
    requires forall|x: T| #[trigger] p(x) == q(x)
    ensures #[trigger] s.filter(p) == #[trigger] s.filter(q)
    decreases s.len()
{
    reveal_with_fuel(Seq::filter, 1);
    if s.len() > 0 { lemma_filter_ext(s.drop_last(), p, q); }
}

pub open spec fn keeps(job: Job) -> spec_fn(Activity) -> bool { |a: Activity| a.job_of() != Some(job) }

/// does some activity of `s` belong to job `j`
pub open spec fn serves(s: Seq<Activity>, j: Job) -> bool { exists|i: int| 0 <= i < s.len() && (#[trigger] s[i]).job_of() == Some(j) }

/// representation invariant (C14) over the abstract view: depot ends in place, every interior activity carries a job,
/// job set == jobs of the activities
pub open spec fn wf_view(s: Seq<Activity>, js: Set<Job>, closed: bool) -> bool {
    let tail = if closed { 1int } else { 0int };
    &&& s.len() >= 1 + tail
    &&& s[0].job_of() is None
    &&& closed ==> s.last().job_of() is None
    &&& forall|i: int| 1 <= i < s.len() - tail ==> (#[trigger] s[i]).job_of() is Some
    &&& forall|j: Job| #[trigger] js.contains(j) <==> serves(s, j)
}

// ---------------------------------------------------------------- the data structure (field list mirrors tour.rs)
pub struct Tour {
    activities: Vec<Activity>,
    jobs: HashSet<Job>,      // real: HashSet<Job, BuildHasherDefault<FxHasher>>
    is_closed: bool,
}

impl Tour {
    // `index` / `index_last` are iterator `position` / `rposition` chains (outside Verus): offered to the code under
    // contract by their assumed contracts only (first / last activity of the job), not verified here
    #[verifier::external_body]
    fn index(&self, job: &Job) -> (r: Option<usize>)
        ensures r is None <==> !serves(self.acts(), *job),
                r is Some ==> r->0 < self.acts().len() && self.acts()[r->0 as int].job_of() == Some(*job)
                    && forall|i: int| 0 <= i < r->0 ==> (#[trigger] self.acts()[i]).job_of() != Some(*job)
    { unimplemented!() }
    #[verifier::external_body]
    fn index_last(&self, job: &Job) -> (r: Option<usize>)
        ensures r is None <==> !serves(self.acts(), *job),
                r is Some ==> r->0 < self.acts().len() && self.acts()[r->0 as int].job_of() == Some(*job)
                    && forall|i: int| r->0 < i < self.acts().len() ==> (#[trigger] self.acts()[i]).job_of() != Some(*job)
    { unimplemented!() }

    // abstract view
    pub closed spec fn acts(&self) -> Seq<Activity> { self.activities@ }
    pub closed spec fn jobset(&self) -> Set<Job> { self.jobs@ }
    pub closed spec fn closed(&self) -> bool { self.is_closed }

    /// number of trailing depot activities
    pub open spec fn tail(&self) -> int { if self.closed() { 1int } else { 0int } }
    pub open spec fn wf(&self) -> bool { wf_view(self.acts(), self.jobset(), self.closed()) }
    /// weak shape invariant that holds from `Tour::default()` on (before the start is set)
    pub open spec fn sized(&self) -> bool { self.closed() ==> self.acts().len() >= 2 }

//@extract vrp-core/src/models/solution/tour.rs :: impl Tour/fn set_start ret=r vis=private
//@| requires old(self).acts().len() == 0, !old(self).closed(), old(self).jobset() == Set::<Job>::empty(), activity.job_of() is None,
//@| ensures r.acts() == seq![activity], !r.closed(), r.jobset() == old(self).jobset(), r.wf(), *final(r) == *final(self),
//@end

//@extract vrp-core/src/models/solution/tour.rs :: impl Tour/fn set_end ret=r vis=private
//@| requires old(self).wf(), !old(self).closed(), activity.job_of() is None,
//@| ensures r.acts() == old(self).acts().push(activity), r.closed(), r.jobset() == old(self).jobset(), r.wf(), *final(r) == *final(self),
//@prologue proof { lemma_push_end_wf(old(self).acts(), old(self).jobset(), activity); }
//@end

//@extract vrp-core/src/models/solution/tour.rs :: impl Tour/fn job_activity_count ret=r vis=private
//@| requires self.sized(),
//@| ensures self.acts().len() == 0 ==> r == 0,
//@|         self.acts().len() > 0 ==> r == self.acts().len() - 1 - self.tail(),
//@|         r < usize::MAX,
//@end

//@extract vrp-core/src/models/solution/tour.rs :: impl Tour/fn insert_at ret=r vis=private
//@| requires old(self).wf(), activity.job_of() is Some,
//@|          1 <= index <= old(self).acts().len() - old(self).tail(),
//@| ensures r.acts() == old(self).acts().insert(index as int, activity),
//@|         r.closed() == old(self).closed(),
//@|         r.jobset() == old(self).jobset().insert(activity.job_of()->0),
//@|         r.wf(),
//@|         *final(r) == *final(self),
//@prologue proof { ax_job_key_model(); lemma_insert_wf(old(self).acts(), old(self).jobset(), old(self).closed(), activity, index as int); }
//@end

//@extract vrp-core/src/models/solution/tour.rs :: impl Tour/fn insert_last ret=r vis=private
//@| requires old(self).wf(), activity.job_of() is Some,
//@| ensures r.acts() == old(self).acts().insert(old(self).acts().len() - old(self).tail(), activity),
//@|         r.closed() == old(self).closed(),
//@|         r.jobset() == old(self).jobset().insert(activity.job_of()->0),
//@|         r.wf(),
//@|         *final(r) == *final(self),
//@end

//@extract vrp-core/src/models/solution/tour.rs :: impl Tour/fn remove ret=r vis=private
//@| requires old(self).wf(),
//@| ensures final(self).acts() == old(self).acts().filter(keeps(*job)),
//@|         final(self).jobset() == old(self).jobset().remove(*job),
//@|         final(self).closed() == old(self).closed(),
//@|         r == old(self).jobset().contains(*job),
//@|         final(self).wf(),
//@prologue proof { ax_job_key_model(); broadcast use lemma_filter_ext; lemma_remove_wf(old(self).acts(), old(self).jobset(), old(self).closed(), *job); }
//@closure 1 |a: &Activity| -> (keep: bool) ensures keep == (a.job_of() != Some(*job))
//@end

//@extract vrp-core/src/models/solution/tour.rs :: impl Tour/fn remove_activity_at ret=r vis=private
//@| requires old(self).wf(), 1 <= idx < old(self).acts().len() - old(self).tail(),
//@| ensures Some(r) == old(self).acts()[idx as int].job_of(),
//@|         final(self).acts() == old(self).acts().filter(keeps(r)),
//@|         final(self).jobset() == old(self).jobset().remove(r),
//@|         final(self).closed() == old(self).closed(),
//@|         final(self).wf(),
//@closure 1 |a: &Activity| -> (o: Option<Job>) ensures o == a.job_of()
//@end

//@extract vrp-core/src/models/solution/tour.rs :: impl Tour/fn get ret=r vis=private
//@| ensures index < self.acts().len() ==> r == Some(&self.acts()[index as int]),
//@|         index >= self.acts().len() ==> r is None,
//@end

//@extract vrp-core/src/models/solution/tour.rs :: impl Tour/fn start ret=r vis=private
//@| ensures self.acts().len() > 0 ==> r == Some(&self.acts()[0]),
//@|         self.acts().len() == 0 ==> r is None,
//@end

//@extract vrp-core/src/models/solution/tour.rs :: impl Tour/fn end ret=r vis=private
//@| ensures self.acts().len() > 0 ==> r == Some(&self.acts().last()),
//@|         self.acts().len() == 0 ==> r is None,
//@end

//@extract vrp-core/src/models/solution/tour.rs :: impl Tour/fn end_idx ret=r vis=private
//@| ensures self.acts().len() > 0 ==> r == Some((self.acts().len() - 1) as usize),
//@|         self.acts().len() == 0 ==> r is None,
//@end

//@extract vrp-core/src/models/solution/tour.rs :: impl Tour/fn contains ret=r vis=private
//@| ensures r == self.jobset().contains(*job),
//@prologue proof { ax_job_key_model(); }
//@end

//@extract vrp-core/src/models/solution/tour.rs :: impl Tour/fn has_job ret=r vis=private
//@| ensures r == self.jobset().contains(*job),
//@prologue proof { ax_job_key_model(); }
//@end

//@extract vrp-core/src/models/solution/tour.rs :: impl Tour/fn has_jobs ret=r vis=private
//@| ensures r == (self.jobset().len() > 0),
//@|         self.wf() ==> r == (self.acts().len() - 1 - self.tail() > 0),
//@prologue proof { ax_job_key_model(); lemma_jobs_nonempty(self.acts(), self.jobset(), self.closed()); }
//@end

//@extract vrp-core/src/models/solution/tour.rs :: impl Tour/fn total ret=r vis=private
//@| ensures r == self.acts().len(),
//@end

//@extract vrp-core/src/models/solution/tour.rs :: impl Tour/fn job_count ret=r vis=private
//@| ensures r == self.jobset().len(),
//@prologue proof { ax_job_key_model(); }
//@end
}

// ---------------------------------------------------------------- proved lemmas tying the contracts to `wf`
pub proof fn lemma_push_end_wf(s: Seq<Activity>, js: Set<Job>, a: Activity)
    requires wf_view(s, js, false), a.job_of() is None,
    ensures wf_view(s.push(a), js, true),
{
    let s1 = s.push(a);
    assert(s1[0] == s[0]);
    assert forall|i: int| 1 <= i < s1.len() - 1 implies (#[trigger] s1[i]).job_of() is Some by { assert(s1[i] == s[i]); }
    assert forall|j: Job| #[trigger] js.contains(j) <==> serves(s1, j) by {
        if js.contains(j) { let i = choose|i: int| 0 <= i < s.len() && (#[trigger] s[i]).job_of() == Some(j); assert(s1[i] == s[i]); }
        if serves(s1, j) { let i = choose|i: int| 0 <= i < s1.len() && (#[trigger] s1[i]).job_of() == Some(j); assert(i < s.len()); assert(s1[i] == s[i]); }
    }
}

pub proof fn lemma_insert_wf(s0: Seq<Activity>, js0: Set<Job>, closed: bool, a: Activity, index: int)
    requires wf_view(s0, js0, closed), a.job_of() is Some, 1 <= index <= s0.len() - (if closed { 1int } else { 0int }),
    ensures wf_view(s0.insert(index, a), js0.insert(a.job_of()->0), closed),
{
    let tail = if closed { 1int } else { 0int };
    let s1 = s0.insert(index, a);
    let js = js0.insert(a.job_of()->0);
    assert(s1[0] == s0[0]);
    if closed { assert(s1[s1.len() - 1] == s0[s0.len() - 1]); }
    assert forall|i: int| 1 <= i < s1.len() - tail implies (#[trigger] s1[i]).job_of() is Some by {
        if i < index { assert(s1[i] == s0[i]); } else if i == index { } else { assert(s1[i] == s0[i - 1]); }
    }
    assert forall|j: Job| #[trigger] js.contains(j) <==> serves(s1, j) by {
        if js.contains(j) {
            if Some(j) == a.job_of() { assert(s1[index].job_of() == Some(j)); }
            else {
                let i = choose|i: int| 0 <= i < s0.len() && (#[trigger] s0[i]).job_of() == Some(j);
                if i < index { assert(s1[i] == s0[i]); } else { assert(s1[i + 1] == s0[i]); }
            }
        }
        if serves(s1, j) {
            let i = choose|i: int| 0 <= i < s1.len() && (#[trigger] s1[i]).job_of() == Some(j);
            if i < index { assert(s1[i] == s0[i]); } else if i == index { } else { assert(s1[i] == s0[i - 1]); }
        }
    }
}

/// filtering one job out of `start ++ jobs…` keeps the start, keeps "all interior carry a job", and removes exactly that job
pub proof fn lemma_filter_open(q: Seq<Activity>, job: Job)
    requires q.len() >= 1, q[0].job_of() is None, forall|i: int| 1 <= i < q.len() ==> (#[trigger] q[i]).job_of() is Some,
    ensures ({
        let f = q.filter(keeps(job));
        &&& 1 <= f.len() <= q.len()
        &&& f[0] == q[0]
        &&& forall|i: int| 1 <= i < f.len() ==> (#[trigger] f[i]).job_of() is Some
        &&& forall|j: Job| #[trigger] serves(f, j) <==> (j != job && serves(q, j))
    }),
    decreases q.len()
{
    reveal_with_fuel(Seq::filter, 2);
    let f = q.filter(keeps(job));
    let p = q.drop_last();
    if q.len() == 1 {
        assert(p.filter(keeps(job)).len() == 0);
        assert(f == seq![q[0]]);
        assert forall|j: Job| #[trigger] serves(f, j) <==> (j != job && serves(q, j)) by {
            if serves(f, j) { let i = choose|i: int| 0 <= i < f.len() && (#[trigger] f[i]).job_of() == Some(j); }
            if serves(q, j) { let i = choose|i: int| 0 <= i < q.len() && (#[trigger] q[i]).job_of() == Some(j); }
        }
    } else {
        assert(p[0] == q[0]);
        assert forall|i: int| 1 <= i < p.len() implies (#[trigger] p[i]).job_of() is Some by { assert(p[i] == q[i]); }
        lemma_filter_open(p, job);
        let fp = p.filter(keeps(job));
        let l = q.last();
        if keeps(job)(l) {
            assert(f == fp.push(l));
            assert(f[0] == fp[0]);
            assert forall|i: int| 1 <= i < f.len() implies (#[trigger] f[i]).job_of() is Some by { if i < fp.len() { assert(f[i] == fp[i]); } }
            assert forall|j: Job| #[trigger] serves(f, j) <==> (j != job && serves(q, j)) by {
                if serves(f, j) {
                    let i = choose|i: int| 0 <= i < f.len() && (#[trigger] f[i]).job_of() == Some(j);
                    if i < fp.len() { assert(f[i] == fp[i]); assert(serves(fp, j)); let k = choose|k: int| 0 <= k < p.len() && (#[trigger] p[k]).job_of() == Some(j); assert(q[k] == p[k]); }
                    else { assert(q[q.len() - 1].job_of() == Some(j)); }
                }
                if j != job && serves(q, j) {
                    let k = choose|k: int| 0 <= k < q.len() && (#[trigger] q[k]).job_of() == Some(j);
                    if k < p.len() { assert(p[k] == q[k]); assert(serves(p, j)); assert(serves(fp, j)); let i = choose|i: int| 0 <= i < fp.len() && (#[trigger] fp[i]).job_of() == Some(j); assert(f[i] == fp[i]); }
                    else { assert(f[f.len() - 1] == l); }
                }
            }
        } else {
            assert(f == fp);
            assert forall|j: Job| #[trigger] serves(f, j) <==> (j != job && serves(q, j)) by {
                if serves(f, j) { let k = choose|k: int| 0 <= k < p.len() && (#[trigger] p[k]).job_of() == Some(j); assert(q[k] == p[k]); }
                if j != job && serves(q, j) {
                    let k = choose|k: int| 0 <= k < q.len() && (#[trigger] q[k]).job_of() == Some(j);
                    assert(k < p.len()); assert(p[k] == q[k]); assert(serves(p, j));
                }
            }
        }
    }
}

pub proof fn lemma_remove_wf(s: Seq<Activity>, js: Set<Job>, closed: bool, job: Job)
    requires wf_view(s, js, closed),
    ensures wf_view(s.filter(keeps(job)), js.remove(job), closed),
{
    reveal_with_fuel(Seq::filter, 2);
    let f = s.filter(keeps(job));
    let js1 = js.remove(job);
    if closed {
        let p = s.drop_last();
        assert(p[0] == s[0]);
        assert forall|i: int| 1 <= i < p.len() implies (#[trigger] p[i]).job_of() is Some by { assert(p[i] == s[i]); }
        lemma_filter_open(p, job);
        let fp = p.filter(keeps(job));
        assert(f == fp.push(s.last()));
        assert(f[0] == fp[0]);
        assert forall|i: int| 1 <= i < f.len() - 1 implies (#[trigger] f[i]).job_of() is Some by { assert(f[i] == fp[i]); }
        assert forall|j: Job| #[trigger] js1.contains(j) <==> serves(f, j) by {
            if js1.contains(j) {
                let k = choose|k: int| 0 <= k < s.len() && (#[trigger] s[k]).job_of() == Some(j);
                assert(k < p.len()); assert(p[k] == s[k]); assert(serves(p, j)); assert(serves(fp, j));
                let i = choose|i: int| 0 <= i < fp.len() && (#[trigger] fp[i]).job_of() == Some(j); assert(f[i] == fp[i]);
            }
            if serves(f, j) {
                let i = choose|i: int| 0 <= i < f.len() && (#[trigger] f[i]).job_of() == Some(j);
                assert(i < fp.len()); assert(f[i] == fp[i]); assert(serves(fp, j));
                let k = choose|k: int| 0 <= k < p.len() && (#[trigger] p[k]).job_of() == Some(j); assert(s[k] == p[k]); assert(serves(s, j));
            }
        }
    } else {
        lemma_filter_open(s, job);
        assert forall|j: Job| #[trigger] js1.contains(j) <==> serves(f, j) by { }
    }
}

pub proof fn lemma_jobs_nonempty(s: Seq<Activity>, js: Set<Job>, closed: bool)
    ensures wf_view(s, js, closed) ==> ((js.len() > 0) == (s.len() - 1 - (if closed { 1int } else { 0int }) > 0)),
{
    if wf_view(s, js, closed) {
        let tail = if closed { 1int } else { 0int };
        if s.len() - 1 - tail > 0 {
            let j = s[1].job_of()->0;
            assert(serves(s, j));
            assert(js.contains(j));
            if js.len() == 0 { js.lemma_len0_is_empty(); assert(false); }
        } else {
            assert forall|j: Job| !js.contains(j) by {
                if js.contains(j) { let i = choose|i: int| 0 <= i < s.len() && (#[trigger] s[i]).job_of() == Some(j); }
            }
            assert(js =~= Set::<Job>::empty());
        }
    }
}

// ]]tour-core
// vacuity guard: must be REJECTED by Verus (shows wf() is satisfiable-dependent reasoning is not vacuous)
pub proof fn vacuity_wf_not_contradictory(t: Tour)
    requires t.wf(), t.closed(), t.acts().len() >= 3,
{
    assert(false);
}

} // verus!
fn main() {}
