// U01f – skills gate (skills.rs, verbatim): a job is accepted for a vehicle iff allOf is a subset of the vehicle's skills,
// oneOf (if given) meets them and noneOf is disjoint from them
#![allow(dead_code, unused_variables, unused_imports)]
#[path = "@VERIF_ENV@/collections.rs"]
mod verif_env;
use verif_env::HashSet;
use std::sync::Arc;

// ------------------------------------------------------------------ environment (assumed)
/// skill names are modelled as small integers: inside this crate the name `String` denotes this type (extracted text unchanged)
pub type String = u8;
#[derive(Clone, Copy, Debug, PartialEq, Eq)] pub struct ViolationCode(pub i32);
#[derive(Clone, Debug, PartialEq, Eq)] pub struct ConstraintViolation { pub code: ViolationCode, pub stopped: bool }
impl ConstraintViolation { pub fn fail(code: ViolationCode) -> Option<Self> { Some(Self { code, stopped: true }) } }
pub struct JobDimens { pub skills: Option<JobSkills> }
impl JobDimens { pub fn get_job_skills(&self) -> Option<&JobSkills> { self.skills.as_ref() } }
pub struct VehicleDimens { pub skills: Option<HashSet<String>> }
impl VehicleDimens { pub fn get_vehicle_skills(&self) -> Option<&HashSet<String>> { self.skills.as_ref() } }
pub struct Job { pub dimens: JobDimens }
impl Job { pub fn dimens(&self) -> &JobDimens { &self.dimens } }
pub struct Vehicle { pub dimens: VehicleDimens }
pub struct Actor { pub vehicle: Arc<Vehicle> }
pub struct Route { pub actor: Arc<Actor> }
pub struct RouteContext { pub route: Route }
impl RouteContext { pub fn route(&self) -> &Route { &self.route } }
pub struct SolutionContext {}
pub enum MoveContext<'a> { Route { solution_ctx: &'a SolutionContext, route_ctx: &'a RouteContext, job: &'a Job }, Activity { solution_ctx: &'a SolutionContext, route_ctx: &'a RouteContext } }

// ------------------------------------------------------------------ code under contract (verbatim from /repo)
//@extract vrp-core/src/construction/features/skills.rs :: struct JobSkills
//@end
//@extract vrp-core/src/construction/features/skills.rs :: impl JobSkills
//@end
//@extract vrp-core/src/construction/features/skills.rs :: struct SkillsConstraint
//@end
impl SkillsConstraint {
//@extract vrp-core/src/construction/features/skills.rs :: impl FeatureConstraint for SkillsConstraint/fn evaluate
//@end
}
//@extract vrp-core/src/construction/features/skills.rs :: fn check_all_of
//@end
//@extract vrp-core/src/construction/features/skills.rs :: fn check_one_of
//@end
//@extract vrp-core/src/construction/features/skills.rs :: fn check_none_of
//@end

#[cfg(kani)]
mod h {
    use super::*;
    /// one-skill universe, constant-shaped instances (symbolic set contents make CBMC exceed 10 GB): each requirement list
    /// either names the skill or is not given; the vehicle has no skills entry, an empty one, or the skill
    fn req(named: bool) -> Option<Vec<String>> { if named { Some(vec![0]) } else { None } }
    fn gate(all_of: bool, one_of: bool, none_of: bool, veh: u8) {
        let job = Job { dimens: JobDimens { skills: Some(JobSkills::new(req(all_of), req(one_of), req(none_of))) } };
        let vs: Option<HashSet<String>> = match veh { 0 => None, 1 => Some(HashSet::default()), _ => Some([0u8].into_iter().collect()) };
        let has = veh == 2;
        let rc = RouteContext { route: Route { actor: Arc::new(Actor { vehicle: Arc::new(Vehicle { dimens: VehicleDimens { skills: vs } }) }) } };
        let c = SkillsConstraint { code: ViolationCode(9) };
        let r = c.evaluate(&MoveContext::Route { solution_ctx: &SolutionContext {}, route_ctx: &rc, job: &job });
        // C01 (required skills): accepted iff every allOf skill is a vehicle skill, some oneOf skill is (when oneOf names
        // any) and no noneOf skill is; a vehicle without a skills entry has no skills
        let expected = (!all_of || has) && (!one_of || has) && !(none_of && has);
        assert!(r.is_none() == expected, "post_skills_gate_accepts_iff_requirements_met");
        if let Some(viol) = &r { assert!(viol.code == ViolationCode(9) && viol.stopped, "post_skills_violation_stops_with_the_feature_code"); }
        assert!(c.evaluate(&MoveContext::Activity { solution_ctx: &SolutionContext {}, route_ctx: &rc }).is_none(), "post_activity_level_is_not_restricted");
    }
    macro_rules! gates { ($($name:ident: $a:literal, $o:literal, $n:literal, $v:literal;)*) => { $( #[kani::proof] #[kani::unwind(4)] fn $name() { gate($a, $o, $n, $v) } )* }; }
    gates! {
        skills_all_veh_none: true, false, false, 0;   skills_all_veh_empty: true, false, false, 1;   skills_all_veh_has: true, false, false, 2;
        skills_one_veh_none: false, true, false, 0;   skills_one_veh_empty: false, true, false, 1;   skills_one_veh_has: false, true, false, 2;
        skills_none_veh_none: false, false, true, 0;  skills_none_veh_empty: false, false, true, 1;  skills_none_veh_has: false, false, true, 2;
        skills_all_none_veh_has: true, false, true, 2; skills_all_one_veh_has: true, true, false, 2; skills_all_one_veh_empty: true, true, false, 1;
    }
    /// two-skill instances (constants): distinguish "disjoint" from "not a subset", "some" from "all"
    fn gate2(all_of: &[u8], one_of: &[u8], none_of: &[u8], veh: &[u8]) {
        let l = |x: &[u8]| if x.is_empty() { None } else { Some(x.to_vec()) };
        let job = Job { dimens: JobDimens { skills: Some(JobSkills::new(l(all_of), l(one_of), l(none_of))) } };
        let rc = RouteContext { route: Route { actor: Arc::new(Actor { vehicle: Arc::new(Vehicle { dimens: VehicleDimens { skills: Some(veh.iter().cloned().collect()) } }) }) } };
        let r = SkillsConstraint { code: ViolationCode(9) }.evaluate(&MoveContext::Route { solution_ctx: &SolutionContext {}, route_ctx: &rc, job: &job });
        let has = |k: &u8| veh.contains(k);
        let expected = all_of.iter().all(has) && (one_of.is_empty() || one_of.iter().any(has)) && !none_of.iter().any(has);
        assert!(r.is_none() == expected, "post_skills_gate_accepts_iff_requirements_met");
    }
    #[kani::proof] #[kani::unwind(5)] fn skills2_none_of_partly_present() { gate2(&[], &[], &[0, 1], &[0]) }
    #[kani::proof] #[kani::unwind(5)] fn skills2_none_of_absent() { gate2(&[], &[], &[1], &[0]) }
    #[kani::proof] #[kani::unwind(5)] fn skills2_all_of_partly_present() { gate2(&[0, 1], &[], &[], &[0]) }
    #[kani::proof] #[kani::unwind(5)] fn skills2_all_of_present() { gate2(&[0, 1], &[], &[], &[1, 0]) }
    #[kani::proof] #[kani::unwind(5)] fn skills2_one_of_partly_present() { gate2(&[], &[0, 1], &[], &[1]) }
    #[kani::proof] #[kani::unwind(5)] fn skills2_one_of_absent() { gate2(&[], &[0], &[], &[1]) }

    #[kani::proof] #[kani::unwind(4)]
    fn skills_no_requirements_always_pass() {
        let job = Job { dimens: JobDimens { skills: None } };
        let rc = RouteContext { route: Route { actor: Arc::new(Actor { vehicle: Arc::new(Vehicle { dimens: VehicleDimens { skills: None } }) }) } };
        assert!(SkillsConstraint { code: ViolationCode(9) }.evaluate(&MoveContext::Route { solution_ctx: &SolutionContext {}, route_ctx: &rc, job: &job }).is_none(), "post_job_without_requirements_passes");
    }
}
