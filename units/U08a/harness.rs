// U08a – Greedy population (KO: compiled as a child module of rosomaxa/src/population/greedy.rs in a scratch overlay)
use super::*;

/// individuals carry an identity and a key; the objective is a total *preorder* on the key (ties between distinct
/// individuals exist), so "no worse under the objective" is what is checked, not identity
struct Obj;
#[derive(Clone, Copy, PartialEq, Eq)]
struct Sol { id: u8, key: i8 }
impl HeuristicSolution for Sol {
    fn fitness(&self) -> impl Iterator<Item = Float> { std::iter::once(self.key as Float) }
    fn deep_copy(&self) -> Self { *self }
}
impl HeuristicObjective for Obj {
    type Solution = Sol;
    fn total_order(&self, a: &Sol, b: &Sol) -> Ordering { a.key.cmp(&b.key) }
}
fn any_sol() -> Sol { Sol { id: kani::any(), key: kani::any() } }
fn any_greedy() -> (Greedy<Obj, Sol>, Option<Sol>) {
    let pre: Option<Sol> = if kani::any() { Some(any_sol()) } else { None };
    let sel: usize = kani::any();
    kani::assume(sel <= 4);
    (Greedy::new(Arc::new(Obj), sel, pre), pre)
}

/// step contract of `add` from an arbitrary state (complete: loop-free) => holds after every history of adds
#[kani::proof]
fn add_keeps_best() {
    let (mut g, pre) = any_greedy();
    let x = any_sol();
    let changed = g.add(x);
    let best = g.best_known.expect("post_add_non_empty");
    assert!(best.key <= x.key, "post_add_best_not_worse_than_offered");
    if let Some(p) = pre {
        assert!(best.key <= p.key, "post_add_best_not_worse_than_before");
        assert!(best == p || best == x, "post_add_no_invention");
        assert!(changed == (x.key < p.key), "post_add_reports_improvement");
        if !changed { assert!(best == p, "post_add_keeps_first_on_tie"); }
    } else {
        assert!(best == x && changed, "post_add_first_is_kept");
    }
    kani::cover!(pre.is_some() && changed);
    kani::cover!(pre.is_some() && !changed && x.key == pre.unwrap().key);
    kani::cover!(pre.is_none());
}

/// batch contract of `add_all` (bounded: batch length <= 3): best is no worse than everything offered, and is one of them
#[kani::proof]
#[kani::unwind(5)]
fn add_all_offers_every_individual() {
    let (mut g, pre) = any_greedy();
    let n: usize = kani::any();
    kani::assume(n <= 3);
    let xs = [any_sol(), any_sol(), any_sol()];
    let batch: Vec<Sol> = match n { 0 => vec![], 1 => vec![xs[0]], 2 => vec![xs[0], xs[1]], _ => vec![xs[0], xs[1], xs[2]] };
    let changed = g.add_all(batch);
    if n == 0 {
        assert!(g.best_known == pre && !changed, "post_add_all_empty_batch_is_noop");
    } else {
        let best = g.best_known.expect("post_add_all_non_empty");
        let mut i = 0;
        while i < n { assert!(best.key <= xs[i].key, "post_add_all_best_not_worse_than_any_offered"); i += 1; }
        if let Some(p) = pre { assert!(best.key <= p.key, "post_add_all_best_not_worse_than_before"); }
        assert!(Some(best) == pre || (n > 0 && best == xs[0]) || (n > 1 && best == xs[1]) || (n > 2 && best == xs[2]), "post_add_all_no_invention");
        assert!(changed == (Some(best) != pre) || (pre.is_some() && changed == (best.key < pre.unwrap().key)), "post_add_all_reports_improvement");
    }
    kani::cover!(n == 3 && pre.is_some() && xs[0].key < pre.unwrap().key && xs[2].key < xs[0].key);
    kani::cover!(n == 2 && pre.is_none());
}

/// observers: size, ranked, select (complete: selection_size <= 4 is a harness bound on the *count* of yielded copies only)
#[kani::proof]
#[kani::unwind(6)]
fn observers_agree_with_state() {
    let (g, pre) = any_greedy();
    let sel = g.selection_size;
    assert!(g.size() == usize::from(pre.is_some()), "post_size");
    let mut r = g.ranked();
    assert!(r.next().copied() == pre && r.next().is_none(), "post_ranked_is_best_only");
    let mut a = g.all();
    assert!(a.next().copied() == pre && a.next().is_none(), "post_all_is_best_only");
    let mut s = g.select();
    let mut cnt = 0;
    while let Some(x) = s.next() { assert!(Some(*x) == pre, "post_select_only_offered"); cnt += 1; }
    assert!(cnt == if pre.is_some() { sel } else { 0 }, "post_select_count");
    kani::cover!(pre.is_some() && sel == 4);
}
