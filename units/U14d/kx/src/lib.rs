// U14d – vehicle bookkeeping of a solution: RegistryContext (get_route / use_route / free_route / next_route / deep_copy / deep_slice / new)
// and SolutionContext::keep_routes / remove_empty_routes (context.rs, verbatim) against the CONTRACT of the vehicle registry (unit U14c):
// "a vehicle is marked in use exactly when a tour of the solution drives it" is kept by every operation
#![allow(dead_code, unused_variables, unused_imports)]
#[path = "@VERIF_ENV@/collections_fixed.rs"]
mod verif_env;
use verif_env::HashMap;

// ------------------------------------------------------------------ environment (assumed)
/// leaked shared reference without reference counting in place of std Arc (see unit U14c)
pub struct Arc<T: 'static>(&'static T);
impl<T> Arc<T> { pub fn new(x: T) -> Self { Arc(Box::leak(Box::new(x))) } }
impl<T> Clone for Arc<T> { fn clone(&self) -> Self { Arc(self.0) } }
impl<T> std::ops::Deref for Arc<T> { type Target = T; fn deref(&self) -> &T { self.0 } }
impl<T> AsRef<T> for Arc<T> { fn as_ref(&self) -> &T { self.0 } }
impl<T> std::borrow::Borrow<T> for Arc<T> { fn borrow(&self) -> &T { self.0 } }
impl<T: PartialEq> PartialEq for Arc<T> { fn eq(&self, o: &Self) -> bool { *self.0 == *o.0 } }
impl<T: Eq> Eq for Arc<T> {}
#[derive(PartialEq, Eq)] pub struct Actor { pub id: u8 }
pub const N: usize = 3;
/// CONTRACT of the vehicle registry (what U14c verifies the real Registry against): a free/in-use flag per vehicle
pub struct Registry { pub free: [bool; N], pub known: [bool; N], pub actors: [Arc<Actor>; N] }
impl Registry {
    pub fn use_actor(&mut self, actor: &Actor) -> bool { let i = actor.id as usize; if self.known[i] && self.free[i] { self.free[i] = false; true } else { false } }
    pub fn free_actor(&mut self, actor: &Arc<Actor>) -> bool { let i = actor.id as usize; if self.known[i] && !self.free[i] { self.free[i] = true; true } else { false } }
    pub fn all(&'_ self) -> impl Iterator<Item = Arc<Actor>> + '_ { self.actors.iter().filter(|a| self.known[a.id as usize]).cloned() }
    /// one free vehicle per type group; here every vehicle is its own group
    pub fn next(&'_ self) -> impl Iterator<Item = Arc<Actor>> + '_ { self.actors.iter().filter(|a| self.known[a.id as usize] && self.free[a.id as usize]).cloned() }
    pub fn deep_copy(&self) -> Self { Self { free: self.free, known: self.known, actors: self.actors.clone() } }
    pub fn deep_slice(&self, filter: impl Fn(&Actor) -> bool) -> Self {
        let mut known = self.known; let mut i = 0; while i < N { known[i] = known[i] && filter(self.actors[i].as_ref()); i += 1; }
        Self { free: self.free, known, actors: self.actors.clone() }
    }
}
pub struct Tour { pub jobs: usize }
impl Tour { pub fn has_jobs(&self) -> bool { self.jobs > 0 } }
pub struct Route { pub actor: Arc<Actor>, pub tour: Tour }
pub struct RouteContext { pub route: Arc<Route>, pub state_ready: bool, pub copy_of_prototype: bool }
impl RouteContext {
    pub fn new(actor: Arc<Actor>) -> Self { Self { route: Arc::new(Route { actor, tour: Tour { jobs: 0 } }), state_ready: false, copy_of_prototype: false } }
    pub fn route(&self) -> &Route { self.route.as_ref() }
    pub fn deep_copy(&self) -> Self { Self { route: Arc::new(Route { actor: self.route.actor.clone(), tour: Tour { jobs: self.route.tour.jobs } }), state_ready: self.state_ready, copy_of_prototype: true } }
}
pub struct GoalContext;
impl GoalContext { pub fn accept_route_state(&self, route_ctx: &mut RouteContext) { route_ctx.state_ready = true; } }

// ------------------------------------------------------------------ code under contract (verbatim from /repo)
//@extract vrp-core/src/construction/heuristics/context.rs :: struct RegistryContext
//@end
//@extract vrp-core/src/construction/heuristics/context.rs :: impl RegistryContext
//@end
pub struct SolutionContext { pub routes: Vec<RouteContext>, pub registry: RegistryContext }
impl SolutionContext {
//@extract vrp-core/src/construction/heuristics/context.rs :: impl SolutionContext/fn keep_routes
//@end
//@extract vrp-core/src/construction/heuristics/context.rs :: impl SolutionContext/fn remove_empty_routes
//@end
}

#[cfg(kani)]
mod h {
    use super::*;
    fn registry(free: [bool; N]) -> (RegistryContext, [Arc<Actor>; N]) {
        let a = [Arc::new(Actor { id: 0 }), Arc::new(Actor { id: 1 }), Arc::new(Actor { id: 2 })];
        (RegistryContext::new(&GoalContext, Registry { free, known: [true; N], actors: a.clone() }), a)
    }
    /// get_route hands a vehicle out exactly when it is free, marks it in use, and what it hands out is an independent, initialised,
    /// empty tour of that very vehicle; use_route / free_route are the registry's acquire / release
    #[kani::proof] #[kani::unwind(6)]
    fn get_route_hands_out_free_vehicles_only() {
        let free: [bool; N] = kani::any();
        let (mut rc, a) = registry(free);
        let i: usize = kani::any(); kani::assume(i < N);
        let got = rc.get_route(&a[i]);
        assert!(got.is_some() == free[i], "post_route_handed_out_iff_vehicle_free");
        if let Some(r) = &got {
            assert!(r.route.actor.id == i as u8 && !r.route.tour.has_jobs() && r.state_ready && r.copy_of_prototype, "post_handed_out_route_is_an_initialised_empty_copy_for_that_vehicle");
        }
        let mut k = 0;
        while k < N { assert!(rc.resources().free[k] == (free[k] && k != i), "post_only_that_vehicle_marked_in_use"); k += 1; }
        assert!(rc.get_route(&a[i]).is_none(), "post_never_handed_out_twice");
        if let Some(r) = got { assert!(rc.free_route(r), "post_release_of_a_used_route_succeeds"); assert!(rc.resources().free[i], "post_released_vehicle_is_free_again"); }
    }
    /// next_route offers the prototypes of exactly the free vehicles
    #[kani::proof] #[kani::unwind(6)]
    fn next_route_offers_free_vehicles() {
        let free: [bool; N] = kani::any();
        let (rc, a) = registry(free);
        let mut seen = [0u8; N];
        for r in rc.next_route() { assert!(!r.route.tour.has_jobs() && r.state_ready, "post_offered_route_is_an_initialised_empty_one"); seen[r.route.actor.id as usize] += 1; }
        let mut k = 0;
        while k < N { assert!(seen[k] == free[k] as u8, "post_offers_exactly_the_free_vehicles"); k += 1; }
    }
    /// invariant "in use <=> some tour drives it" is kept by keep_routes / remove_empty_routes: the kept tours are exactly the ones the
    /// predicate accepts, in order; the vehicles of the dropped ones are free again, nothing else changes
    fn keep<const K0: bool, const K1: bool>() {
        // two tours on vehicles 0 and 2 (vehicle 1 free); K0/K1: whether tour 0 / tour 1 has jobs (constant shapes)
        let (mut rc, a) = registry([true; N]);
        let r0 = rc.get_route(&a[0]).unwrap(); let r1 = rc.get_route(&a[2]).unwrap();
        let mk = |r: RouteContext, jobs: usize| RouteContext { route: Arc::new(Route { actor: r.route.actor.clone(), tour: Tour { jobs } }), ..r };
        let mut sc = SolutionContext { routes: vec![mk(r0, if K0 { 2 } else { 0 }), mk(r1, if K1 { 1 } else { 0 })], registry: rc };
        sc.remove_empty_routes();
        assert!(sc.routes.len() == K0 as usize + K1 as usize, "post_exactly_the_tours_with_jobs_are_kept");
        if K0 { assert!(sc.routes[0].route.actor.id == 0, "post_kept_tours_stay_in_order"); }
        if K1 { assert!(sc.routes[K0 as usize].route.actor.id == 2, "post_kept_tours_stay_in_order"); }
        let f = sc.registry.resources().free;
        assert!(f[0] == !K0 && f[1] && f[2] == !K1, "post_vehicle_in_use_iff_a_kept_tour_drives_it");
    }
    #[kani::proof] #[kani::unwind(6)] fn remove_empty_routes_keeps_bookkeeping_in_step_tt() { keep::<true, true>() }
    #[kani::proof] #[kani::unwind(6)] fn remove_empty_routes_keeps_bookkeeping_in_step_tf() { keep::<true, false>() }
    #[kani::proof] #[kani::unwind(6)] fn remove_empty_routes_keeps_bookkeeping_in_step_ft() { keep::<false, true>() }
    #[kani::proof] #[kani::unwind(6)] fn remove_empty_routes_keeps_bookkeeping_in_step_ff() { keep::<false, false>() }
    /// copies: a deep copy's bookkeeping is independent; a slice knows exactly the kept vehicles
    #[kani::proof] #[kani::unwind(6)]
    fn copy_and_slice() {
        let free: [bool; N] = kani::any();
        let keep: [bool; N] = kani::any();
        let (rc, a) = registry(free);
        let mut c = rc.deep_copy();
        let i: usize = kani::any(); kani::assume(i < N);
        let _ = c.get_route(&a[i]);
        let mut k = 0;
        while k < N { assert!(rc.resources().free[k] == free[k], "post_original_unchanged_by_the_copy"); k += 1; }
        let mut s = rc.deep_slice(|actor| keep[actor.id as usize]);
        let got = s.get_route(&a[i]);
        assert!(got.is_some() == (free[i] && keep[i]), "post_slice_hands_out_only_free_kept_vehicles");
    }
}
