// U06d – MultiContext of the multi-task (pickup-and-delivery) evaluator (evaluators.rs, verbatim bodies, Verus):
// promote keeps the cheaper candidate and never replaces a found insertion by a failure; next/is_success/is_failure
#![feature(const_destruct)]
#![allow(unused_imports, dead_code)]
use vstd::prelude::*;
use vstd::std_specs::cmp::*;
use core::cmp::Ordering;
use core::ops::ControlFlow;
verus! {

// ---------------------------------------------------------------- environment (assumed)
pub struct InsertionCost { pub rank: int }
pub open spec fn ord_of(a: int, b: int) -> Ordering { if a < b { Ordering::Less } else if a == b { Ordering::Equal } else { Ordering::Greater } }
impl PartialEqSpecImpl for InsertionCost { open spec fn obeys_eq_spec() -> bool { true } open spec fn eq_spec(&self, o: &InsertionCost) -> bool { self.rank == o.rank } }
impl PartialOrdSpecImpl for InsertionCost { open spec fn obeys_partial_cmp_spec() -> bool { true } open spec fn partial_cmp_spec(&self, o: &InsertionCost) -> Option<Ordering> { Some(ord_of(self.rank, o.rank)) } }
impl core::cmp::PartialEq for InsertionCost { #[verifier::external_body] fn eq(&self, o: &Self) -> (r: bool) { unimplemented!() } }
impl core::cmp::PartialOrd for InsertionCost { #[verifier::external_body] fn partial_cmp(&self, o: &Self) -> (r: Option<Ordering>) { unimplemented!() } }
#[derive(Clone, Copy)] pub struct ViolationCode(pub i32);
pub struct ConstraintViolation { pub code: ViolationCode, pub stopped: bool }
pub struct Activity { pub token: int }
// std contract missing from vstd
pub assume_specification<T, F: FnOnce(T) -> bool>[core::option::Option::<T>::is_some_and](o: Option<T>, f: F) -> (r: bool)
    requires o is Some ==> f.requires((o->0,)),
    ensures o is None ==> !r, o is Some ==> f.ensures((o->0,), r);

// ---------------------------------------------------------------- code under contract (verbatim from /repo)
//@extract vrp-core/src/construction/heuristics/evaluators.rs :: struct MultiContext attrs=drop
//@end

spec fn cost_of(c: MultiContext) -> Option<int> { match c.cost { Some(k) => Some(k.rank), None => None } }
pub open spec fn min_opt(a: Option<int>, b: Option<int>) -> Option<int> {
    match (a, b) { (None, _) => b, (_, None) => a, (Some(x), Some(y)) => Some(if x <= y { x } else { y }) }
}
spec fn payload_from(out: MultiContext, src: MultiContext) -> bool { out.violation == src.violation && out.cost == src.cost && out.activities == src.activities }
spec fn flow_value(f: ControlFlow<MultiContext, MultiContext>) -> MultiContext { match f { ControlFlow::Break(v) => v, ControlFlow::Continue(v) => v } }

impl MultiContext {
//@extract vrp-core/src/construction/heuristics/evaluators.rs :: impl MultiContext/fn promote ret=r vis=private
//@| requires left.start_index < usize::MAX, right.start_index < usize::MAX,
//@| ensures ({
//@|     let out = flow_value(r);
//@|     // no invention: violation, cost and activities come together from ONE of the two candidates
//@|     &&& (payload_from(out, left) || payload_from(out, right))
//@|     // the cheaper candidate wins; a found insertion is never replaced by a failure
//@|     &&& cost_of(out) == min_opt(cost_of(left), cost_of(right))
//@|     // the scan moves on behind both candidates
//@|     &&& out.start_index == (if left.start_index >= right.start_index { left.start_index } else { right.start_index }) + 1
//@|     &&& out.next_index == out.start_index
//@|     // the scan stops exactly on a stopping violation
//@|     &&& (r is Break) == (match out.violation { Some(v) => v.stopped, None => false })
//@| }),
//@closure 1 |v: &ConstraintViolation| -> (b: bool) ensures b == v.stopped
//@end

//@extract vrp-core/src/construction/heuristics/evaluators.rs :: impl MultiContext/fn next ret=r vis=private attrs=drop
//@| ensures r.violation is None, r.cost is None, r.activities is None, r.start_index == self.start_index, r.next_index == self.start_index,
//@end

//@extract vrp-core/src/construction/heuristics/evaluators.rs :: impl MultiContext/fn is_success ret=r vis=private attrs=drop
//@| ensures r == (self.violation is None && self.cost is Some && self.activities is Some),
//@end

//@extract vrp-core/src/construction/heuristics/evaluators.rs :: impl MultiContext/fn is_failure ret=r vis=private attrs=drop
//@| ensures r == ((match self.violation { Some(v) => v.stopped, None => false }) || self.start_index > index),
//@closure 1 |v: &ConstraintViolation| -> (b: bool) ensures b == v.stopped
//@end
}

// vacuity guard: must be REJECTED
proof fn vacuity_min_opt(a: Option<int>, b: Option<int>) { assert(min_opt(a, b) == a); }

} // verus!
fn main() {}
