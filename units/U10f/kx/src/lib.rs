// U10f – objective validation rules E1600..E1607 (validation/objectives.rs, verbatim) over the real `Objective` enum
// (format/problem/model.rs, verbatim) against the documented rules
#![allow(dead_code, unused_macros, unused_variables, unused_imports)]
macro_rules! format { ($($t:tt)*) => { () } } // message text dropped (the error CODE is what the property speaks about)
const VERIF_MAP_CAP: usize = 4;
#[path = "@VERIF_ENV@/collections_fixed_n.rs"]
mod verif_env;
use verif_env::HashSet;
#[path = "@VERIF_ENV@/strings.rs"]
mod verif_strings;
use verif_strings::String;
const VERIF_VEC_CAP: usize = 4;
#[path = "@VERIF_ENV@/vec_fixed.rs"]
mod verif_vec;
use verif_vec::Vec;
#[path = "@VERIF_ENV@/eager.rs"]
mod verif_eager;
use verif_eager::FlatMapEager;
use Objective::*;

// ------------------------------------------------------------------ environment (assumed)
pub type Float = f64;
/// only the fields the rules read; task lists are inline arrays of 0 or 1 task (the rules only iterate them)
pub struct JobTask { pub order: Option<i32> }
pub struct Job { pub id: String, pub value: Option<Float>, pub pickups: Option<[JobTask; 1]>, pub deliveries: Option<[JobTask; 1]>, pub services: Option<[JobTask; 1]>, pub replacements: Option<[JobTask; 1]> }
pub struct Plan { pub jobs: [Job; 2] }
pub struct Problem { pub plan: Plan }
pub struct ValidationContext<'a> { pub problem: &'a Problem }
pub struct FormatError { pub code: [u8; 5] }
impl FormatError { pub fn new<A, B>(code: std::string::String, _cause: A, _action: B) -> Self { let b = code.as_bytes(); Self { code: [b[0], b[1], b[2], b[3], b[4]] } } }

// ------------------------------------------------------------------ code under contract (verbatim from /repo)
//@extract vrp-core/src/utils/types.rs :: enum Either
//@end
//@extract vrp-core/src/utils/types.rs :: impl<L, R, T> Iterator for Either<L, R>
//@end
//@extract vrp-pragmatic/src/format/problem/model.rs :: enum Objective attrs=drop
//@subst "#[serde(skip_serializing_if = \"Option::is_none\")]" => "" count=2
//@subst "objectives: Vec<Objective>," => "objectives: std::vec::Vec<Objective>," count=1
//@end
//@extract vrp-pragmatic/src/format/problem/model.rs :: enum MultiStrategy attrs=drop
//@end
impl Job {
//@extract vrp-pragmatic/src/format/problem/model.rs :: impl Job/fn all_tasks_iter
//@subst ".flatten()" => ".flatten_eager()" count=1
//@end
}
//@extract vrp-pragmatic/src/validation/objectives.rs :: fn check_e1600_empty_objective
//@end
//@extract vrp-pragmatic/src/validation/objectives.rs :: fn check_e1601_duplicate_objectives
//@end
//@extract vrp-pragmatic/src/validation/objectives.rs :: fn check_e1602_no_cost_objective
//@end
//@extract vrp-pragmatic/src/validation/objectives.rs :: fn check_e1603_no_jobs_with_value_objective
//@end
//@extract vrp-pragmatic/src/validation/objectives.rs :: fn check_e1604_no_jobs_with_order_objective
//@subst ".flat_map(" => ".flat_map_eager(" count=1
//@end
//@extract vrp-pragmatic/src/validation/objectives.rs :: fn check_e1605_check_positive_value_and_order
//@end
//@extract vrp-pragmatic/src/validation/objectives.rs :: fn check_e1606_check_multiple_cost_objectives
//@end
//@extract vrp-pragmatic/src/validation/objectives.rs :: fn check_e1607_jobs_with_value_but_no_objective
//@end
//@extract vrp-pragmatic/src/validation/objectives.rs :: fn get_objectives_flattened
//@subst ".flat_map(" => ".flat_map_eager(" count=1
//@end

#[cfg(kani)]
mod h {
    use super::*;
    /// any objective that is not a multi-objective, by kind 0..15
    fn simple(k: u8) -> Objective {
        match k {
            0 => MinimizeCost, 1 => MinimizeDistance, 2 => MinimizeDuration, 3 => MinimizeTours, 4 => MaximizeTours,
            5 => MaximizeValue { breaks: None }, 6 => MinimizeUnassigned { breaks: None }, 7 => MinimizeArrivalTime, 8 => BalanceMaxLoad,
            9 => BalanceActivities, 10 => BalanceDistance, 11 => BalanceDuration, 12 => CompactTour { job_radius: 1 }, 13 => TourOrder,
            14 => FastService, _ => HierarchicalAreas { levels: 1 },
        }
    }
    /// objectives are leaked: dropping an enum of symbolic variant makes CBMC consider freeing the multi-objective's vectors
    fn leak<T>(x: T) -> &'static T { Box::leak(Box::new(x)) }
    fn kind() -> u8 { let k: u8 = kani::any(); kani::assume(k < 16); k }
    fn is_cost(k: u8) -> bool { k <= 2 }
    fn expect(r: Result<(), FormatError>, broken: bool, c: &[u8; 5]) {
        assert!(r.is_err() == broken, "post_rule_rejects_exactly_when_the_documented_rule_is_broken");
        if let Err(e) = &r { assert!(e.code == *c, "post_reported_code_names_the_rule"); }
        kani::cover!(broken); kani::cover!(!broken);
    }
    fn task() -> Option<[JobTask; 1]> { if kani::any() { let o: i8 = kani::any(); kani::assume(o >= -1 && o <= 2); Some([JobTask { order: if kani::any() { Some(o as i32) } else { None } }]) } else { None } }
    fn job(id: u8, with_tasks: bool) -> Job {
        let v: i8 = kani::any(); kani::assume(v >= -1 && v <= 2);
        Job { id: String(id), value: if kani::any() { Some(v as Float / 2.) } else { None },
              pickups: if with_tasks { task() } else { None }, deliveries: if with_tasks { task() } else { None }, services: None, replacements: if with_tasks { task() } else { None } }
    }
    fn orders(j: &Job) -> [Option<i32>; 3] { let o = |t: &Option<[JobTask; 1]>| t.as_ref().and_then(|t| t[0].order); [o(&j.pickups), o(&j.deliveries), o(&j.replacements)] }

    /// E1600 (empty list), E1602 (no cost objective), E1606 (more than one cost objective) on flat lists of three objectives
    #[kani::proof] #[kani::unwind(10)]
    fn e1600_e1602_e1606_cost_objectives() {
        let ks = [kind(), kind(), kind()];
        let os = leak([simple(ks[0]), simple(ks[1]), simple(ks[2])]);
        let refs = [&os[0], &os[1], &os[2]];
        let n_cost = ks.iter().filter(|k| is_cost(**k)).count();
        assert!(check_e1600_empty_objective(&refs).is_ok(), "post_non_empty_list_passes_e1600");
        let empty: [&Objective; 0] = [];
        let r = check_e1600_empty_objective(&empty);
        assert!(matches!(&r, Err(e) if e.code == *b"E1600"), "post_empty_list_is_rejected_with_e1600");
        expect(check_e1602_no_cost_objective(&refs), n_cost == 0, b"E1602");
        let r = check_e1606_check_multiple_cost_objectives(&refs);
        assert!(r.is_err() == (n_cost > 1), "post_rule_rejects_exactly_when_the_documented_rule_is_broken");
        if let Err(e) = &r { assert!(e.code == *b"E1606", "post_reported_code_names_the_rule"); }
        kani::cover!(n_cost > 1);
    }

    /// E1601: an objective type occurs more than once - also across the members of a multi-objective
    #[kani::proof] #[kani::unwind(10)]
    fn e1601_each_objective_type_once() {
        let ks = [kind(), kind(), kind()];
        let nested: bool = kani::any();
        let os = leak(if nested {
            [simple(ks[0]), MultiObjective { strategy: MultiStrategy::Sum, objectives: vec![simple(ks[1]), simple(ks[2])] }]
        } else {
            [simple(ks[0]), MultiObjective { strategy: MultiStrategy::Sum, objectives: vec![simple(ks[1])] }]
        });
        let refs = [&os[0], &os[1]];
        let broken = if nested { ks[0] == ks[1] || ks[0] == ks[2] || ks[1] == ks[2] } else { ks[0] == ks[1] };
        expect(check_e1601_duplicate_objectives(&refs), broken, b"E1601");
        // a cost objective inside a multi-objective counts for E1602
        let r = check_e1602_no_cost_objective(&refs);
        let any_cost = is_cost(ks[0]) || is_cost(ks[1]) || (nested && is_cost(ks[2]));
        assert!(r.is_err() == !any_cost, "post_cost_objective_is_found_inside_a_multi_objective");
    }

    /// E1603 / E1607: maximize-value given without any positively valued job; positively valued jobs without maximize-value
    #[kani::proof] #[kani::unwind(10)]
    fn e1603_e1607_value_objective_and_valued_jobs() {
        let ks = [kind(), kind()];
        let os = leak([simple(ks[0]), simple(ks[1])]);
        let refs = [&os[0], &os[1]];
        let p = Problem { plan: Plan { jobs: [job(4, false), job(5, false)] } };
        let ctx = ValidationContext { problem: &p };
        let has_value_objective = ks[0] == 5 || ks[1] == 5;
        let valued_job = p.plan.jobs.iter().any(|j| j.value.map_or(false, |v| v > 0.));
        expect(check_e1603_no_jobs_with_value_objective(&ctx, &refs), has_value_objective && !valued_job, b"E1603");
        let r = check_e1607_jobs_with_value_but_no_objective(&ctx, &refs);
        assert!(r.is_err() == (!has_value_objective && valued_job), "post_rule_rejects_exactly_when_the_documented_rule_is_broken");
        if let Err(e) = &r { assert!(e.code == *b"E1607", "post_reported_code_names_the_rule"); }
        kani::cover!(!has_value_objective && valued_job);
    }

    /// E1604: tour-order given without any job task of non-zero order
    #[kani::proof] #[kani::unwind(10)]
    fn e1604_order_objective_needs_ordered_jobs() {
        let ks = [kind(), kind()];
        let os = leak([simple(ks[0]), simple(ks[1])]);
        let refs = [&os[0], &os[1]];
        let p = Problem { plan: Plan { jobs: [job(4, true), job(5, false)] } };
        let has_order_objective = ks[0] == 13 || ks[1] == 13;
        let ordered = orders(&p.plan.jobs[0]).iter().any(|o| o.map_or(false, |o| o > 0));
        expect(check_e1604_no_jobs_with_order_objective(&ValidationContext { problem: &p }, &refs), has_order_objective && !ordered, b"E1604");
    }

    /// E1605: a job's value or a task's order below 1
    #[kani::proof] #[kani::unwind(10)]
    fn e1605_values_and_orders_at_least_one() {
        let mut j0 = job(4, true); j0.replacements = None; // (two symbolic task lists: three do not finish in CBMC)
        let p = Problem { plan: Plan { jobs: [j0, job(5, false)] } };
        let bad = |j: &Job| j.value.map_or(false, |v| v < 1.) || orders(j).iter().any(|o| o.map_or(false, |o| o < 1));
        expect(check_e1605_check_positive_value_and_order(&ValidationContext { problem: &p }), bad(&p.plan.jobs[0]) || bad(&p.plan.jobs[1]), b"E1605");
    }
}
