// U19b – GSOM compaction: `contract_graph` (contraction.rs, verbatim) over the real `Network` container operations
// (`get_mut`, `remove`, `remap`, `size`, `get_nodes`, `get_coordinates`, `find`; network.rs, verbatim) and `get_network_shape`
// (state.rs, verbatim). C19: compaction never grows the map nor leaves fewer than four nodes, every key equals the coordinate
// of its node afterwards (lookup by coordinate finds exactly that node), no two surviving nodes are merged, the individuals
// of the removed nodes are handed back for re-training with growth switched off.
#![allow(dead_code, unused_variables, unused_imports)]
const VERIF_MAP_CAP: usize = 12;
#[path = "@VERIF_ENV@/collections_fixed_n.rs"]
mod verif_env;
use verif_env::HashMap;
use std::cmp::Ordering;
use std::marker::PhantomData;
use std::ops::RangeBounds;

// ------------------------------------------------------------------ environment (assumed)
pub type Float = f64;
pub struct FxHasher; pub struct BuildHasherDefault<T>(PhantomData<T>);
pub trait Input: Send + Sync { /** (environment) identity of an individual */ fn tag(&self) -> u8; }
pub trait Storage: Send + Sync { type Item: Input; fn drain<R>(&mut self, range: R) -> Vec<Self::Item> where R: RangeBounds<usize>; }
pub trait StorageFactory<C, I, S>: Send + Sync where C: Send + Sync, I: Input, S: Storage<Item = I> {}
/// an individual, identified by a tag
pub struct In { pub tag: u8 }
impl Input for In { fn tag(&self) -> u8 { self.tag } }
/// a node storage holding at most one individual (`held` = 0: empty)
pub struct St { pub held: u8 }
impl Storage for St {
    type Item = In;
    fn drain<R>(&mut self, _: R) -> Vec<In> where R: RangeBounds<usize> { let h = self.held; self.held = 0; if h != 0 { vec![In { tag: h }] } else { vec![] } }
}
pub struct Fa; impl StorageFactory<(), In, St> for Fa {}
/// real Node also has weights, error, hit statistics: compaction does not touch them; `id` stands for them (node identity)
pub struct Node<I: Input, S: Storage<Item = I>> { pub coordinate: Coordinate, pub storage: S, pub id: u8, pub p: PhantomData<I> }
//@extract rosomaxa/src/algorithms/gsom/node.rs :: struct Coordinate
//@end
//@extract rosomaxa/src/algorithms/gsom/network.rs :: type NodeHashMap
//@end
/// real Network also has the training parameters and min-max weights; `train_on_data` (float training) is replaced by a
/// recorder of what it is given: the tags, and whether growth was allowed
pub struct Network<C, I, S, F> where C: Send + Sync, I: Input, S: Storage<Item = I>, F: StorageFactory<C, I, S> {
    nodes: NodeHashMap<I, S>,
    pub retrained: [u8; 12], pub retrained_len: usize, pub retrain_calls: usize, pub growth_allowed: bool,
    p: PhantomData<(C, F)>,
}
impl<C, I, S, F> Network<C, I, S, F> where C: Send + Sync, I: Input, S: Storage<Item = I>, F: StorageFactory<C, I, S> {
    pub(crate) fn train_on_data(&mut self, _context: &C, data: Vec<I>, is_new_input: bool) {
        self.retrain_calls += 1;
        if is_new_input { self.growth_allowed = true; }
        for i in data { self.retrained[self.retrained_len] = i.tag(); self.retrained_len += 1; }
    }
}

// ------------------------------------------------------------------ code under contract (verbatim from /repo)
impl<C, I, S, F> Network<C, I, S, F> where C: Send + Sync, I: Input, S: Storage<Item = I>, F: StorageFactory<C, I, S> {
//@extract rosomaxa/src/algorithms/gsom/network.rs :: impl<C, I, S, F> Network<C, I, S, F>/fn find
//@end
//@extract rosomaxa/src/algorithms/gsom/network.rs :: impl<C, I, S, F> Network<C, I, S, F>/fn get_coordinates
//@end
//@extract rosomaxa/src/algorithms/gsom/network.rs :: impl<C, I, S, F> Network<C, I, S, F>/fn get_nodes
//@end
//@extract rosomaxa/src/algorithms/gsom/network.rs :: impl<C, I, S, F> Network<C, I, S, F>/fn iter
//@end
//@extract rosomaxa/src/algorithms/gsom/network.rs :: impl<C, I, S, F> Network<C, I, S, F>/fn size
//@end
//@extract rosomaxa/src/algorithms/gsom/network.rs :: impl<C, I, S, F> Network<C, I, S, F>/fn get_mut vis=pub
//@end
//@extract rosomaxa/src/algorithms/gsom/network.rs :: impl<C, I, S, F> Network<C, I, S, F>/fn remove vis=pub
//@end
//@extract rosomaxa/src/algorithms/gsom/network.rs :: impl<C, I, S, F> Network<C, I, S, F>/fn remap vis=pub
//@end
}
//@extract rosomaxa/src/algorithms/gsom/state.rs :: fn get_network_shape
//@end
//@extract rosomaxa/src/algorithms/gsom/contraction.rs :: fn contract_graph
//@end
//@extract rosomaxa/src/algorithms/gsom/contraction.rs :: fn get_offset
//@end

#[cfg(kani)]
mod h {
    use super::*;
    type Net = Network<(), In, St, Fa>;
    /// a W x H block of nodes whose lower-left corner is (x0, y0); node ids 1.. in row order; node k holds individual 100+k
    /// when `held` says so
    fn grid<const W: i32, const H: i32>(x0: i32, y0: i32, held: &[bool; 12]) -> Net {
        let mut nodes: NodeHashMap<In, St> = Default::default();
        let mut k = 0u8;
        let mut y = 0; while y < H { let mut x = 0; while x < W {
            k += 1;
            let c = Coordinate(x0 + x, y0 + y);
            nodes.insert(c, Node { coordinate: c, storage: St { held: if held[(k - 1) as usize] { 100 + k } else { 0 } }, id: k, p: PhantomData });
            x += 1; } y += 1; }
        Network { nodes, retrained: [0; 12], retrained_len: 0, retrain_calls: 0, growth_allowed: false, p: PhantomData }
    }

    /// the contract of compaction, checked on a W x H block placed anywhere around the origin
    fn compaction<const W: i32, const H: i32, const X0: i32, const Y0: i32>() {
        let (x0, y0): (i32, i32) = (X0, Y0); // the map contains the origin (it grows from a block at (0,0))
        let held: [bool; 12] = [true; 12];
        let mut net = grid::<W, H>(x0, y0, &held);
        let n = (W * H) as usize;

        contract_graph(&(), &mut net, (3, 4));

        assert!(net.size() <= n, "post_compaction_never_grows_the_map");
        assert!(net.size() >= 4 || net.size() == n, "post_compaction_leaves_at_least_four_nodes_or_is_skipped");
        if net.size() == n { assert!(net.retrained_len == 0, "post_skipped_compaction_takes_no_individuals_away"); }
        assert!(!net.growth_allowed, "post_retraining_after_compaction_does_not_allow_growth");
        // key == coordinate of the node stored under it; lookup by coordinate finds exactly that node; ids stay distinct
        let mut present = [false; 13];
        for (c, node) in net.iter() {
            assert!(*c == node.coordinate, "post_key_equals_node_coordinate");
            assert!(net.find(&node.coordinate).map(|f| f.id) == Some(node.id), "post_lookup_by_coordinate_finds_exactly_that_node");
            assert!(!present[node.id as usize], "post_node_identities_stay_distinct");
            present[node.id as usize] = true;
        }
        // a node leaves the map only through the removal step, whose individuals are handed back for re-training: no node
        // is swallowed by another one when the coordinates are shifted
        let mut k = 1usize;
        while k <= n {
            if held[k - 1] {
                let mut handed_back = false; let mut i = 0; while i < net.retrained_len { if net.retrained[i] as usize == 100 + k { handed_back = true; } i += 1; }
                assert!(present[k] != handed_back, "post_every_node_survives_or_hands_its_individuals_back");
            }
            k += 1;
        }
        kani::cover!(true);
    }
    #[kani::proof] #[kani::unwind(14)] fn compaction_2x2_at_m1_m1() { compaction::<2, 2, -1, -1>() }
    #[kani::proof] #[kani::unwind(14)] fn compaction_2x2_at_0_0() { compaction::<2, 2, 0, 0>() }
    #[kani::proof] #[kani::unwind(14)] fn compaction_3x3_at_m1_m1() { compaction::<3, 3, -1, -1>() }
    #[kani::proof] #[kani::unwind(14)] fn compaction_3x3_at_0_0() { compaction::<3, 3, 0, 0>() }
    #[kani::proof] #[kani::unwind(14)] fn compaction_3x3_at_m2_m2() { compaction::<3, 3, -2, -2>() }
    #[kani::proof] #[kani::unwind(14)] fn compaction_4x3_at_m1_m1() { compaction::<4, 3, -1, -1>() }
    #[kani::proof] #[kani::unwind(14)] fn compaction_4x3_at_m3_m1() { compaction::<4, 3, -3, -1>() }
    #[kani::proof] #[kani::unwind(14)] fn compaction_4x3_at_0_0() { compaction::<4, 3, 0, 0>() }
    #[kani::proof] #[kani::unwind(14)] fn compaction_3x4_at_m1_m2() { compaction::<3, 4, -1, -2>() }
    #[kani::proof] #[kani::unwind(14)] fn compaction_5x2_at_m2_0() { compaction::<5, 2, -2, 0>() }
    #[kani::proof] #[kani::unwind(14)] fn compaction_6x2_at_m2_0() { compaction::<6, 2, -2, 0>() }
    #[kani::proof] #[kani::unwind(14)] fn compaction_2x5_at_m1_m3() { compaction::<2, 5, -1, -3>() }
}
