// U20e – multi-task jobs: eval_multi (heuristics/evaluators.rs, verbatim) with MultiContext, ShadowContext, concat_activities,
// get_insertion_index, SingleContext (verbatim) against a recording stand-in of the per-task evaluator.
// C20 / C06 (multi-task jobs are placed by a greedy sequential scan): each later task is priced against a tour that holds the
// earlier tasks exactly where, and at the place, the result says they go; the quoted cost is the route cost plus the tasks' quotes.
#![allow(dead_code, unused_variables, unused_imports, unused_macros)]
use std::cell::RefCell;
use std::ops::ControlFlow;
const VERIF_VEC_CAP: usize = 4;
#[path = "@VERIF_ENV@/vec_fixed.rs"]
mod verif_vec;
use verif_vec::Vec;
/// `vec![..]` builds the stand-in Vec
macro_rules! vec { ($($x:expr),* $(,)?) => { [$($x),*].into_iter().collect::<Vec<_>>() } }
/// std Arc replaced by a leaked shared reference without reference counting (as in unit U14c): with std Arc the counts become
/// symbolic as soon as a value holding one is moved or dropped under a symbolic condition (here: the cheaper of two candidates)
pub struct Arc<T: 'static>(&'static T);
impl<T> Arc<T> { pub fn new(x: T) -> Self { Arc(Box::leak(Box::new(x))) } }
impl<T> Clone for Arc<T> { fn clone(&self) -> Self { Arc(self.0) } }
impl<T> Copy for Arc<T> {}
impl<T> std::ops::Deref for Arc<T> { type Target = T; fn deref(&self) -> &T { self.0 } }

// ------------------------------------------------------------------ environment (assumed)
pub type Cost = f64;
#[derive(Clone, Copy, Debug, PartialEq, Eq)] pub struct ViolationCode(pub i32);
impl ViolationCode { pub fn unknown() -> Self { ViolationCode(-1) } }
#[derive(Clone, Debug, PartialEq, Eq)] pub struct ConstraintViolation { pub code: ViolationCode, pub stopped: bool }
/// the place (location, duration, time window) chosen for an activity, reduced to an identity
#[derive(Clone, Copy, Debug, PartialEq)] pub struct Place { pub id: u8 }
pub struct Single { pub id: u8 }
pub struct Multi { pub jobs: Vec<Arc<Single>> }
impl Multi { pub fn permutations(&self) -> Vec<Vec<Arc<Single>>> { vec![self.jobs.clone()] } } // one allowed order
#[derive(Clone)] pub enum Job { Single(Arc<Single>), Multi(Arc<Multi>) }
pub struct Activity { pub place: Place, pub job: Option<Arc<Single>> }
impl Activity {
    pub fn new_with_job(job: Arc<Single>) -> Self { Activity { place: Place { id: 0 }, job: Some(job) } }
    pub fn deep_copy(&self) -> Self { Activity { place: self.place, job: self.job.clone() } }
}
/// tour = start, job activities, end
pub struct Tour { pub activities: Vec<Activity> }
impl Tour {
    pub fn job_activity_count(&self) -> usize { self.activities.len() - 2 }
    pub fn insert_at(&mut self, activity: Activity, index: usize) -> &mut Self { self.activities.insert(index, activity); self }
    pub fn legs(&self) -> impl Iterator<Item = usize> + '_ { 0..self.activities.len() - 1 }
}
pub struct Actor;
pub struct Route { pub tour: Tour, pub actor: Arc<Actor> }
pub struct RouteContext { pub route: Route }
impl RouteContext {
    pub fn route(&self) -> &Route { &self.route }
    pub fn route_mut(&mut self) -> &mut Route { &mut self.route }
    pub fn deep_copy(&self) -> Self { RouteContext { route: Route { tour: Tour { activities: self.route.tour.activities.iter().map(|a| a.deep_copy()).collect() }, actor: self.route.actor.clone() } } }
}
pub struct SolutionContext;
#[derive(Clone, Debug, Default, PartialEq, PartialOrd)] pub struct InsertionCost(pub Cost);
impl std::ops::Add for InsertionCost { type Output = InsertionCost; fn add(self, o: InsertionCost) -> InsertionCost { InsertionCost(self.0 + o.0) } }
/// what the per-task evaluator is to answer at its k-th call, and what it saw
pub struct Script { pub place: [u8; 2], pub index: [usize; 2], pub cost: [Cost; 2], pub calls: usize, pub seen: [[u8; 4]; 2], pub seen_len: [usize; 2], pub asked_from: [usize; 2] }
pub struct GoalContext { pub script: RefCell<Script>, pub accepted: RefCell<usize> }
impl GoalContext { pub fn accept_route_state(&self, _: &mut RouteContext) { *self.accepted.borrow_mut() += 1; } }
pub struct EvaluationContext<'a> { pub goal: &'a GoalContext, pub job: &'a Job }
pub struct InsertionSuccess { pub cost: InsertionCost, pub activities: Vec<(Activity, usize)> }
pub enum InsertionResult { Success(InsertionSuccess), Failure { code: ViolationCode, stopped: bool } }
impl InsertionResult {
    pub fn make_success(cost: InsertionCost, job: Job, activities: Vec<(Activity, usize)>, route_ctx: &RouteContext) -> Self { Self::Success(InsertionSuccess { cost, activities }) }
    pub fn make_failure_with_code(code: ViolationCode, stopped: bool, job: Option<Job>) -> Self { Self::Failure { code, stopped } }
}
/// recording stand-in for analyze_insertion_in_route (its own contract: units U06a/U06c). Like the real one it tries the task's
/// alternative places on `target` one after the other - so `target.place` is left at the LAST tried alternative (id 99), not at
/// the best one - and answers with the scripted best place / leg index / quote. It records the tour it was asked to price against.
fn analyze_insertion_in_route(eval_ctx: &EvaluationContext, solution_ctx: &SolutionContext, route_ctx: &RouteContext, insertion_idx: Option<usize>,
                              single: &Single, target: &mut Activity, route_costs: InsertionCost, init: SingleContext) -> SingleContext {
    let mut s = eval_ctx.goal.script.borrow_mut();
    let k = s.calls; s.calls += 1;
    if k >= 2 { return SingleContext { violation: Some(ConstraintViolation { code: ViolationCode(7), stopped: false }), index: init.index, cost: None, place: None }; }
    let acts = &route_ctx.route().tour.activities;
    s.seen_len[k] = acts.len();
    let mut i = 0; while i < acts.len() && i < 4 { s.seen[k][i] = acts[i].place.id; i += 1; }
    s.asked_from[k] = init.index;
    target.place = Place { id: 99 };
    SingleContext { violation: None, index: s.index[k].max(init.index), cost: Some(InsertionCost(s.cost[k])), place: Some(Place { id: s.place[k] }) }
}

// ------------------------------------------------------------------ code under contract (verbatim from /repo)
//@extract vrp-core/src/utils/types.rs :: enum Either
//@end
//@extract rosomaxa/src/utils/types.rs :: trait UnwrapValue
//@end
//@extract rosomaxa/src/utils/types.rs :: impl<T> UnwrapValue for ControlFlow<T, T>
//@end
//@extract vrp-core/src/construction/heuristics/evaluators.rs :: enum InsertionPosition
//@end
//@extract vrp-core/src/construction/heuristics/evaluators.rs :: fn get_insertion_index
//@end
//@extract vrp-core/src/construction/heuristics/evaluators.rs :: struct SingleContext
//@end
//@extract vrp-core/src/construction/heuristics/evaluators.rs :: impl SingleContext
//@end
//@extract vrp-core/src/construction/heuristics/evaluators.rs :: struct MultiContext
//@end
//@extract vrp-core/src/construction/heuristics/evaluators.rs :: impl MultiContext
//@end
//@extract vrp-core/src/construction/heuristics/evaluators.rs :: struct ShadowContext
//@end
//@extract vrp-core/src/construction/heuristics/evaluators.rs :: impl<'a> ShadowContext<'a>
//@end
//@extract vrp-core/src/construction/heuristics/evaluators.rs :: fn concat_activities
//@end
//@extract vrp-core/src/construction/heuristics/evaluators.rs :: fn eval_multi
//@end

#[cfg(kani)]
mod h {
    use super::*;
    /// a two-task job (pickup, delivery) offered to an empty tour
    fn multi<const I1: usize>() {
        let (c0, c1, rc): (u8, u8, u8) = (kani::any(), kani::any(), kani::any()); kani::assume(c0 < 8 && c1 < 8 && rc < 8);
        let i1: usize = I1;
        let goal = GoalContext { script: RefCell::new(Script { place: [20, 21], index: [0, i1], cost: [c0 as Cost, c1 as Cost], calls: 0, seen: [[0; 4]; 2], seen_len: [0; 2], asked_from: [0; 2] }), accepted: RefCell::new(0) };
        let multi = Arc::new(Multi { jobs: vec![Arc::new(Single { id: 1 }), Arc::new(Single { id: 2 })] });
        let job = Job::Multi(multi.clone());
        let route_ctx = RouteContext { route: Route { tour: Tour { activities: vec![Activity { place: Place { id: 1 }, job: None }, Activity { place: Place { id: 2 }, job: None }] }, actor: Arc::new(Actor) } };
        let r = eval_multi(&EvaluationContext { goal: &goal, job: &job }, &SolutionContext, &route_ctx, &multi, InsertionPosition::Any, InsertionCost(rc as Cost), None);
        let s = goal.script.borrow();
        assert!(s.calls == 2, "post_each_task_is_evaluated_once_for_the_empty_tour");
        match r {
            InsertionResult::Success(ok) => {
                assert!(ok.activities.len() == 2, "post_every_task_gets_an_activity");
                assert!(ok.activities[0].0.place.id == 20 && ok.activities[1].0.place.id == 21, "post_result_carries_the_best_place_of_each_task");
                assert!(ok.activities[0].0.job.as_ref().map(|j| j.id) == Some(1) && ok.activities[1].0.job.as_ref().map(|j| j.id) == Some(2), "post_activities_in_task_order");
                assert!(ok.activities[0].1 == 0 && ok.activities[1].1 == i1.max(1), "post_result_carries_the_quoted_leg_indices");
                assert!(ok.cost == InsertionCost(rc as Cost + c0 as Cost + c1 as Cost), "post_quoted_cost_is_route_cost_plus_the_tasks_quotes");
                // the first task was priced against the bare tour, the second against the tour holding the first task's activity
                // at the quoted position and at the place the result reports for it
                assert!(s.seen_len[0] == 2, "post_first_task_is_priced_against_the_bare_tour");
                assert!(s.seen_len[1] == 3 && s.seen[1][0] == 1 && s.seen[1][2] == 2, "post_second_task_is_priced_against_the_tour_with_the_first_task");
                assert!(s.seen[1][1] == ok.activities[0].0.place.id, "post_earlier_task_stands_in_the_shadow_tour_at_the_place_the_result_reports");
                assert!(s.asked_from[1] == 1, "post_second_task_is_tried_only_behind_the_first");
            }
            InsertionResult::Failure { .. } => { assert!(false, "post_two_quoted_tasks_give_a_success"); }
        }
        assert!(route_ctx.route.tour.activities.len() == 2, "post_the_real_tour_is_left_untouched");
        kani::cover!(true);
    }
    #[kani::proof] #[kani::unwind(6)] fn later_tasks_are_priced_against_the_earlier_ones_quote_0() { multi::<0>() }
    #[kani::proof] #[kani::unwind(6)] fn later_tasks_are_priced_against_the_earlier_ones_quote_1() { multi::<1>() }
}
