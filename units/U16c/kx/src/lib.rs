// U16c – TimeAwareMatrixTransportCost::new (costs.rs, verbatim) with collect_group_by_key (rosomaxa iterators.rs, verbatim): the
// constructor establishes, per profile, the state the time-dependent look-ups (unit U16b) rely on - matrices in chronological order,
// the searched timestamp list in the same order - whatever order the matrices are supplied in; or rejects
#![allow(dead_code, unused_variables, unused_imports)]
#[path = "@VERIF_ENV@/collections_fixed.rs"]
mod verif_env;
use verif_env::HashMap;
use std::hash::Hash;

// ------------------------------------------------------------------ environment (assumed)
pub type Float = f64;
pub type GenericError = &'static str;
/// real MatrixData carries the duration and distance vectors as well; the constructor never looks at them: `tag` stands for them
pub struct MatrixData { pub index: usize, pub timestamp: Option<Float>, pub tag: u8 }
pub trait TransportFallback {}
pub struct Fb; impl TransportFallback for Fb {}

// ------------------------------------------------------------------ code under contract (verbatim from /repo)
//@extract rosomaxa/src/utils/iterators.rs :: trait CollectGroupBy
//@end
//@extract rosomaxa/src/utils/iterators.rs :: impl<T: Iterator> CollectGroupBy for T
//@end
//@extract vrp-core/src/models/problem/costs.rs :: struct TimeAwareMatrixTransportCost
//@end
impl<T: TransportFallback> TimeAwareMatrixTransportCost<T> {
//@extract vrp-core/src/models/problem/costs.rs :: impl<T: TransportFallback> TimeAwareMatrixTransportCost<T>/fn new
//@end
}

#[cfg(kani)]
mod h {
    use super::*;
    fn ts() -> Float { let v: u8 = kani::any(); kani::assume(v < 4); v as Float }
    /// two matrices of one profile, any timestamps, any supply order
    #[kani::proof] #[kani::unwind(6)]
    fn constructor_orders_two_matrices_by_time() {
        let (t0, t1) = (ts(), ts());
        let r = TimeAwareMatrixTransportCost::new(vec![MatrixData { index: 0, timestamp: Some(t0), tag: 10 }, MatrixData { index: 0, timestamp: Some(t1), tag: 11 }], 1, Fb);
        let c = match r { Ok(c) => c, Err(_) => { assert!(false, "post_two_timestamped_matrices_of_one_profile_are_accepted"); return; } };
        let (stamps, ms) = c.costs.get(&0).unwrap();
        assert!(stamps.len() == 2 && ms.len() == 2, "post_every_matrix_kept");
        assert!(stamps[0] <= stamps[1], "post_timestamps_ascending");
        assert!(stamps[0] == ms[0].timestamp.unwrap() as u64 && stamps[1] == ms[1].timestamp.unwrap() as u64, "post_timestamp_list_matches_matrix_order");
        // the same matrices: the one supplied with the smaller timestamp comes first (ties: supply order, the sort is stable)
        let first_is_0 = t0 <= t1;
        assert!(ms[0].tag == if first_is_0 { 10 } else { 11 } && ms[1].tag == if first_is_0 { 11 } else { 10 }, "post_matrices_in_chronological_order");
        assert!(c.size == 1, "post_size_kept");
        kani::cover!(t1 < t0);
        kani::cover!(t0 < t1);
    }
    // (the same with three matrices exhausts 10 GB after 48 min in CBMC and is not registered)
    /// rejections: a matrix without timestamp; a profile with a single matrix (constant shapes: a symbolic profile index does not
    /// finish in CBMC)
    fn reject(missing: bool, other_profile: bool) {
        let r = TimeAwareMatrixTransportCost::new(vec![MatrixData { index: 0, timestamp: Some(ts()), tag: 10 }, MatrixData { index: if other_profile { 1 } else { 0 }, timestamp: if missing { None } else { Some(ts()) }, tag: 11 }], 1, Fb);
        assert!(r.is_err() == (missing || other_profile), "post_rejects_iff_timestamp_missing_or_profile_with_single_matrix");
    }
    #[kani::proof] #[kani::unwind(6)] fn constructor_rejects_missing_timestamp() { reject(true, false) }
    #[kani::proof] #[kani::unwind(6)] fn constructor_rejects_profile_with_single_matrix() { reject(false, true) }
}
