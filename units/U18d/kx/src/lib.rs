// U18d – MinVariation termination criterion (sample mode): the window records EVERY generation and the criterion fires
// exactly when it is allowed to (global, or exploitation phase), the window is full and no objective varies above the threshold
#![allow(dead_code, unused_variables, unused_imports)]
#[path = "@VERIF_ENV@/collections.rs"]
mod verif_env;
use verif_env::HashMap;
use std::any::Any;
use std::hash::Hash;
use std::marker::PhantomData;
use std::ops::ControlFlow;

// ------------------------------------------------------------------ environment (assumed surroundings, NOT under proof)
pub type Float = f64;
#[derive(PartialEq, Eq, Clone, Copy)] pub enum SelectionPhase { Initial, Exploration, Exploitation }
pub trait HeuristicObjective: Send + Sync { type Solution; }
pub trait HeuristicSolution: Send + Sync { fn fitness(&self) -> impl Iterator<Item = Float>; }
pub struct Timer; impl Timer { pub fn elapsed_millis(&self) -> u128 { 0 } }
pub struct HeuristicStatistics { pub generation: usize, pub time: Timer }
pub struct RandomGen;
pub trait Random { fn get_rng(&self) -> RandomGen; }
pub struct Environment { pub random: std::sync::Arc<dyn Random + Send + Sync> }
pub trait HeuristicContext: Send + Sync {
    type Objective: HeuristicObjective<Solution = Self::Solution>;
    type Solution: HeuristicSolution;
    fn ranked(&self) -> Box<dyn Iterator<Item = &'_ Self::Solution> + '_>;
    fn statistics(&self) -> &HeuristicStatistics;
    fn selection_phase(&self) -> SelectionPhase;
    fn environment(&self) -> &Environment;
}
pub trait Termination: Send + Sync {
    type Context: HeuristicContext<Objective = Self::Objective>;
    type Objective: HeuristicObjective;
    fn is_termination(&self, heuristic_ctx: &mut Self::Context) -> bool;
    fn estimate(&self, heuristic_ctx: &Self::Context) -> Float;
}
/// rand's shuffle is only reached in period mode with > 1000 samples (not covered): a no-op stand-in keeps the text compiling
pub trait SliceRandom { fn shuffle(&mut self, _rng: &mut RandomGen) {} }
impl<T> SliceRandom for Vec<T> {}
/// coefficient of variation: the numeric kernel (sqrt, division) is NOT under contract here; this stand-in has the one
/// property the criterion relies on: 0 for a constant sample, 1 (above every threshold in (0,1)) otherwise
pub fn get_cv(values: &[Float]) -> Float { let mut i = 1; while i < values.len() { if values[i] != values[0] { return 1.; } i += 1; } 0. }

// ------------------------------------------------------------------ code under contract (verbatim from /repo)
//@extract rosomaxa/src/utils/types.rs :: trait UnwrapValue
//@end
//@extract rosomaxa/src/utils/types.rs :: impl<T> UnwrapValue for ControlFlow<T, T>
//@end
//@extract rosomaxa/src/utils/iterators.rs :: trait CollectGroupBy
//@end
//@extract rosomaxa/src/utils/iterators.rs :: impl<T: Iterator> CollectGroupBy for T
//@end
//@extract rosomaxa/src/lib.rs :: trait Stateful
//@end
//@extract rosomaxa/src/termination/min_variation.rs :: struct MinVariation
//@end
//@extract rosomaxa/src/termination/min_variation.rs :: enum IntervalType
//@end
/// the window machinery (update_and_check / check_threshold: Any-typed state store, group-by over a hash map, CV numerics)
/// needs > 40 GB in CBMC and is NOT under contract; `is_termination` below is verified against a recording stand-in:
/// what it must do with the window is the contract
pub static mut RECORDED: Vec<(usize, Float)> = Vec::new();
pub static mut VERDICT: bool = false;
impl<C, O, S, K> MinVariation<C, O, S, K>
where
    C: HeuristicContext<Objective = O, Solution = S> + Stateful<Key = K>,
    O: HeuristicObjective<Solution = S>,
    S: HeuristicSolution,
    K: Hash + Eq + Clone,
{
    pub fn new_with_sample(sample: usize, threshold: Float, is_global: bool, key: K) -> Self {
        Self { interval_type: IntervalType::Sample(sample), threshold, is_global, key, _marker: (Default::default(), Default::default(), Default::default()) }
    }
    /// stand-in: records (generation, best fitness) and answers with an arbitrary verdict
    fn update_and_check(&self, heuristic_ctx: &mut C, fitness: Vec<Float>) -> bool {
        #[allow(static_mut_refs)]
        unsafe { RECORDED.push((heuristic_ctx.statistics().generation, fitness[0])); VERDICT }
    }
}
//@extract rosomaxa/src/termination/min_variation.rs :: impl<C, O, S, K> Termination for MinVariation<C, O, S, K>
//@end

// ------------------------------------------------------------------ contract harness
#[cfg(kani)]
mod h {
    use super::*;
    struct Obj; impl HeuristicObjective for Obj { type Solution = Sol; }
    struct Sol(Float); impl HeuristicSolution for Sol { fn fitness(&self) -> impl Iterator<Item = Float> { std::iter::once(self.0) } }
    struct Rnd; impl Random for Rnd { fn get_rng(&self) -> RandomGen { RandomGen } }
    struct Ctx { best: Vec<Sol>, stats: HeuristicStatistics, phase: SelectionPhase, env: Environment, state: Option<Box<dyn Any + Send + Sync>> }
    impl HeuristicContext for Ctx {
        type Objective = Obj; type Solution = Sol;
        fn ranked(&self) -> Box<dyn Iterator<Item = &'_ Sol> + '_> { Box::new(self.best.iter()) }
        fn statistics(&self) -> &HeuristicStatistics { &self.stats }
        fn selection_phase(&self) -> SelectionPhase { self.phase }
        fn environment(&self) -> &Environment { &self.env }
    }
    /// single-key state store (real: TelemetryHeuristicContext keeps a HashMap<Key, Box<dyn Any>>)
    impl Stateful for Ctx {
        type Key = u8;
        fn set_state<T: 'static + Send + Sync>(&mut self, _: u8, state: T) { self.state = Some(Box::new(state)); }
        fn get_state<T: 'static + Send + Sync>(&self, _: &u8) -> Option<&T> { self.state.as_ref().and_then(|s| s.downcast_ref::<T>()) }
        fn state_mut<T: 'static + Send + Sync, F: Fn() -> T>(&mut self, _: u8, inserter: F) -> &mut T {
            if self.state.is_none() { self.state = Some(Box::new(inserter())); }
            self.state.as_mut().unwrap().downcast_mut::<T>().unwrap()
        }
    }
    fn any_phase() -> SelectionPhase { let v: u8 = kani::any(); match v % 3 { 0 => SelectionPhase::Initial, 1 => SelectionPhase::Exploration, _ => SelectionPhase::Exploitation } }

    /// C18: the window must see EVERY generation that has a best individual - whatever the selection phase and whether or
    /// not the criterion is global - and the criterion may fire only when global or in the exploitation phase, and then
    /// exactly with the window's verdict
    #[kani::proof] #[kani::unwind(5)]
    #[allow(static_mut_refs)]
    fn min_variation_records_every_generation() {
        let is_global: bool = kani::any();
        let t = MinVariation::<Ctx, Obj, Sol, u8>::new_with_sample(3, 0.5, is_global, 7);
        let mut ctx = Ctx { best: vec![Sol(0.)], stats: HeuristicStatistics { generation: 0, time: Timer }, phase: SelectionPhase::Initial, env: Environment { random: std::sync::Arc::new(Rnd) }, state: None };
        let mut g = 0;
        while g < 3 {
            let f: u8 = kani::any();
            ctx.best[0] = Sol(f as Float);
            ctx.phase = any_phase();
            ctx.stats.generation = g;
            let verdict: bool = kani::any();
            unsafe { VERDICT = verdict; }
            let fired = t.is_termination(&mut ctx);
            let allowed = is_global || ctx.phase == SelectionPhase::Exploitation;
            unsafe {
                assert!(RECORDED.len() == g + 1, "post_window_updated_exactly_once_per_generation_in_every_phase");
                assert!(RECORDED[g] == (g, f as Float), "post_window_receives_the_best_fitness_of_this_generation");
            }
            assert!(fired == (allowed && verdict), "post_fires_iff_allowed_and_window_verdict");
            g += 1;
        }
        kani::cover!(!is_global);
    }

    #[kani::proof] #[kani::unwind(4)]
    fn min_variation_empty_population_never_fires() {
        let t = MinVariation::<Ctx, Obj, Sol, u8>::new_with_sample(2, 0.5, kani::any(), 7);
        let mut ctx = Ctx { best: vec![], stats: HeuristicStatistics { generation: kani::any(), time: Timer }, phase: any_phase(), env: Environment { random: std::sync::Arc::new(Rnd) }, state: None };
        assert!(!t.is_termination(&mut ctx), "post_empty_population_never_fires");
    }
}
