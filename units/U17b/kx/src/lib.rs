// U17b – k-medoids: KMedoids::{new, initialize_medoids, assign_points_to_medoids, update_medoids, calculate}
// (algorithms/clustering/kmedoids.rs, verbatim) with fold_reduce / map_reduce (rosomaxa utils/parallel.rs, the repository's own
// sequential variant, verbatim). C17: the result is a partition of all points in which no point is closer to another cluster's
// medoid than to its own.
#![allow(dead_code, unused_macros, unused_variables, unused_imports)]
const VERIF_MAP_CAP: usize = 4;
#[path = "@VERIF_ENV@/collections_fixed_n.rs"]
mod verif_env;
use verif_env::HashMap;
const VERIF_VEC_CAP: usize = 4;
#[path = "@VERIF_ENV@/vec_fixed.rs"]
mod verif_vec;
use verif_vec::Vec;
use std::hash::Hash;
use std::marker::PhantomData;

// ------------------------------------------------------------------ code under contract (verbatim from /repo)
//@extract rosomaxa/src/utils/parallel.rs :: mod actual#2/fn map_reduce
//@end
//@extract rosomaxa/src/utils/parallel.rs :: mod actual#2/fn fold_reduce
//@end
//@extract vrp-core/src/algorithms/clustering/kmedoids.rs :: trait Point
//@end
//@extract vrp-core/src/algorithms/clustering/kmedoids.rs :: struct KMedoids
//@end
//@extract vrp-core/src/algorithms/clustering/kmedoids.rs :: impl<P, F> KMedoids<P, F>
//@end
//@extract vrp-core/src/algorithms/clustering/kmedoids.rs :: impl Point for usize
//@end

#[cfg(kani)]
mod h {
    use super::*;
    const N: usize = 4;
    /// any symmetric distance table with zero diagonal and small integer entries
    fn distances() -> [[f64; N]; N] {
        let mut d = [[0f64; N]; N];
        let mut i = 0; while i < N { let mut j = i + 1; while j < N { let v: u8 = kani::any(); kani::assume(v >= 1 && v < 8); d[i][j] = v as f64; d[j][i] = v as f64; j += 1; } i += 1; }
        d
    }
    /// C17: a partition of all points; no point closer to another cluster's medoid than to its own
    fn check(d: &[[f64; N]; N], clusters: &HashMap<usize, Vec<usize>>) {
        let mut seen = [0u8; N];
        for (m, points) in clusters.iter() {
            assert!(*m < N, "post_medoids_are_input_points");
            for p in points.iter() {
                assert!(*p < N, "post_only_input_points_are_returned");
                seen[*p] += 1;
                for (other, _) in clusters.iter() { assert!(d[*p][*m] <= d[*p][*other], "post_no_point_is_closer_to_another_clusters_medoid"); }
            }
        }
        let mut p = 0; while p < N { assert!(seen[p] == 1, "post_result_is_a_partition_of_all_points"); p += 1; }
    }

    /// the assignment step for any two distinct medoids
    #[kani::proof] #[kani::unwind(7)]
    fn assignment_is_a_nearest_medoid_partition() {
        let d = distances();
        let data = [0usize, 1, 2, 3];
        let (m1, m2): (usize, usize) = (kani::any(), kani::any()); kani::assume(m1 < N && m2 < N && m1 != m2);
        let km = KMedoids::new(2, 1, |a: &usize, b: &usize| d[*a][*b]);
        let clusters = km.assign_points_to_medoids(&data, &[m1, m2]);
        check(&d, &clusters);
        assert!(clusters.get(&m1).map_or(false, |c| c.contains(&m1)) && clusters.get(&m2).map_or(false, |c| c.contains(&m2)), "post_a_medoid_belongs_to_its_own_cluster");
        kani::cover!(clusters.get(&m1).map_or(false, |c| c.len() == 3));
    }

    /// the whole algorithm with k = 2 and at most two refinement rounds
    #[kani::proof] #[kani::unwind(7)]
    fn kmedoids_returns_a_nearest_medoid_partition() {
        let d = distances();
        let data = [0usize, 1, 2, 3];
        let km = KMedoids::new(2, 2, |a: &usize, b: &usize| d[*a][*b]);
        let clusters = km.calculate(&data);
        check(&d, &clusters);
        assert!(clusters.len() >= 1 && clusters.len() <= 2, "post_at_most_k_clusters");
        kani::cover!(clusters.len() == 2);
    }
}
