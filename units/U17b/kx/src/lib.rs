// U17b – k-medoids: KMedoids::{new, initialize_medoids, assign_points_to_medoids, update_medoids, calculate}
// (algorithms/clustering/kmedoids.rs, verbatim) with fold_reduce / map_reduce (rosomaxa utils/parallel.rs, the repository's own
// sequential variant, verbatim). C17: the result is a partition of all points in which no point is closer to another cluster's
// medoid than to its own.
#![allow(dead_code, unused_macros, unused_variables, unused_imports)]
const VERIF_MAP_CAP: usize = 4;
#[path = "@VERIF_ENV@/collections_fixed_n.rs"]
mod verif_env;
use verif_env::HashMap;
const VERIF_VEC_CAP: usize = 4;
#[path = "@VERIF_ENV@/vec_fixed.rs"]
mod verif_vec;
use verif_vec::Vec;
use std::hash::Hash;
use std::marker::PhantomData;

// ------------------------------------------------------------------ code under contract (verbatim from /repo)
//@extract rosomaxa/src/utils/parallel.rs :: mod actual#2/fn map_reduce
//@end
//@extract rosomaxa/src/utils/parallel.rs :: mod actual#2/fn fold_reduce
//@end
//@extract vrp-core/src/algorithms/clustering/kmedoids.rs :: trait Point
//@end
//@extract vrp-core/src/algorithms/clustering/kmedoids.rs :: struct KMedoids
//@end
//@extract vrp-core/src/algorithms/clustering/kmedoids.rs :: impl<P, F> KMedoids<P, F>
//@end
//@extract vrp-core/src/algorithms/clustering/kmedoids.rs :: impl Point for usize
//@end

#[cfg(kani)]
mod h {
    use super::*;
    const N: usize = 4;
    /// the symmetric distance table number `code` (0..63): the edge with index e has length 1, or e + 2 when bit e of the code
    /// is set (constant data: CBMC executes the algorithm concretely; symbolic floats through `total_cmp` do not finish)
    fn distances(code: u8) -> [[f64; N]; N] {
        let mut d = [[0f64; N]; N];
        let mut e = 0u8; let mut i = 0; while i < N { let mut j = i + 1; while j < N { let v = if (code >> e) & 1 == 1 { (e + 2) as f64 } else { 1. }; d[i][j] = v; d[j][i] = v; e += 1; j += 1; } i += 1; }
        d
    }
    /// C17: a partition of all points; no point closer to another cluster's medoid than to its own
    fn check(d: &[[f64; N]; N], clusters: &HashMap<usize, Vec<usize>>) {
        let mut seen = [0u8; N];
        for (m, points) in clusters.iter() {
            assert!(*m < N, "post_medoids_are_input_points");
            for p in points.iter() {
                assert!(*p < N, "post_only_input_points_are_returned");
                seen[*p] += 1;
                for (other, _) in clusters.iter() { assert!(d[*p][*m] <= d[*p][*other], "post_no_point_is_closer_to_another_clusters_medoid"); }
            }
        }
        let mut p = 0; while p < N { assert!(seen[p] == 1, "post_result_is_a_partition_of_all_points"); p += 1; }
    }

    /// the assignment step for two medoids, eight distance tables per harness
    fn assignment<const BASE: u8, const M1: usize, const M2: usize>() {
        let data = [0usize, 1, 2, 3];
        let mut code = BASE;
        while code < BASE + 8 {
            let d = distances(code);
            let km = KMedoids::new(2, 1, |a: &usize, b: &usize| d[*a][*b]);
            let clusters = km.assign_points_to_medoids(&data, &[M1, M2]);
            check(&d, &clusters);
            assert!(clusters.get(&M1).map_or(false, |c| c.contains(&M1)) && clusters.get(&M2).map_or(false, |c| c.contains(&M2)), "post_a_medoid_belongs_to_its_own_cluster");
            code += 1;
        }
        kani::cover!(true);
    }
    /// the whole algorithm with k = 2 and at most two refinement rounds, eight distance tables per harness
    fn whole<const BASE: u8, const COUNT: u8>() {
        let data = [0usize, 1, 2, 3];
        let mut code = BASE;
        while code < BASE + COUNT {
            let d = distances(code);
            let km = KMedoids::new(2, 2, |a: &usize, b: &usize| d[*a][*b]);
            let clusters = km.calculate(&data);
            check(&d, &clusters);
            assert!(clusters.len() >= 1 && clusters.len() <= 2, "post_at_most_k_clusters");
            code += 1;
        }
        kani::cover!(true);
    }
    #[kani::proof] #[kani::unwind(20)] fn kmedoids_tables_42_to_44() { whole::<42, 3>() }
    #[kani::proof] #[kani::unwind(20)] fn kmedoids_tables_00_to_07() { whole::<0, 8>() }
    #[kani::proof] #[kani::unwind(20)] fn kmedoids_tables_08_to_15() { whole::<8, 8>() }
    #[kani::proof] #[kani::unwind(20)] fn kmedoids_tables_16_to_23() { whole::<16, 8>() }
    #[kani::proof] #[kani::unwind(20)] fn kmedoids_tables_24_to_31() { whole::<24, 8>() }
    #[kani::proof] #[kani::unwind(20)] fn kmedoids_tables_32_to_39() { whole::<32, 8>() }
    #[kani::proof] #[kani::unwind(20)] fn kmedoids_tables_40_to_47() { whole::<40, 8>() }
    #[kani::proof] #[kani::unwind(20)] fn kmedoids_tables_48_to_55() { whole::<48, 8>() }
    #[kani::proof] #[kani::unwind(20)] fn kmedoids_tables_56_to_63() { whole::<56, 8>() }
    #[kani::proof] #[kani::unwind(10)] fn assignment_tables_00_to_07_medoids_0_3() { assignment::<0, 0, 3>() }
    #[kani::proof] #[kani::unwind(10)] fn assignment_tables_00_to_07_medoids_2_1() { assignment::<0, 2, 1>() }
    #[kani::proof] #[kani::unwind(10)] fn assignment_tables_24_to_31_medoids_0_3() { assignment::<24, 0, 3>() }
    #[kani::proof] #[kani::unwind(10)] fn assignment_tables_24_to_31_medoids_2_1() { assignment::<24, 2, 1>() }
    #[kani::proof] #[kani::unwind(10)] fn assignment_tables_48_to_55_medoids_0_3() { assignment::<48, 0, 3>() }
    #[kani::proof] #[kani::unwind(10)] fn assignment_tables_48_to_55_medoids_2_1() { assignment::<48, 2, 1>() }
}
