// U07d – EvolutionSimulator::run (initial population + strategy) with Iterative::run and MaxGeneration (all verbatim) in a stub rosomaxa environment
#![allow(dead_code, unused_variables, unused_macros, unused_imports)]
use std::fmt::Display;
use std::marker::PhantomData;
use std::sync::Arc;
macro_rules! format { ($($t:tt)*) => { String::new() } }   // message text dropped
pub type Float = f64;
pub type GenericError = String;
pub struct TelemetryMetrics;
pub type EvolutionResult<S> = Result<(Vec<S>, Option<TelemetryMetrics>), GenericError>;
/// wall clock (real: std::time::Instant wrapper): elapsed time is an arbitrary finite non-negative number under Kani
pub struct Timer { pub elapsed: Float }
impl Timer {
    pub fn start() -> Self { Timer { elapsed: 0. } }
    pub fn elapsed_secs_as_float(&self) -> Float { self.elapsed }
    pub fn elapsed_millis(&self) -> u128 { 0 }
}
pub trait Quota: Send + Sync { fn is_reached(&self) -> bool; }
pub trait Random: Send + Sync { fn weighted(&self, weights: &[usize]) -> usize; }
pub struct Environment { pub quota: Option<Arc<dyn Quota>>, pub logger: Arc<dyn Fn(&str) + Send + Sync>, pub random: Arc<dyn Random> }
#[derive(PartialEq, Eq, Clone, Copy)] pub enum SelectionPhase { Initial, Exploration, Exploitation }
pub trait HeuristicObjective: Send + Sync { type Solution; }
pub trait HeuristicSolution: Send + Sync { fn deep_copy(&self) -> Self; }
pub struct HeuristicStatistics { pub generation: usize }
pub trait HeuristicPopulationLike<S> { fn ranked(&self) -> Box<dyn Iterator<Item = &'_ S> + '_>; }
pub trait HeuristicContext: Send + Sync {
    type Objective: HeuristicObjective<Solution = Self::Solution>;
    type Solution: HeuristicSolution;
    fn selected(&self) -> Box<dyn Iterator<Item = &'_ Self::Solution> + '_>;
    fn statistics(&self) -> &HeuristicStatistics;
    fn selection_phase(&self) -> SelectionPhase;
    fn environment(&self) -> &Environment;
    fn on_initial(&mut self, solution: Self::Solution, item_time: Timer);
    fn on_generation(&mut self, offspring: Vec<Self::Solution>, termination_estimate: Float, generation_time: Timer);
    fn on_result(self) -> Result<(Box<dyn HeuristicPopulationLike<Self::Solution>>, Option<TelemetryMetrics>), GenericError>;
}
pub trait HyperHeuristic: Display {
    type Context: HeuristicContext<Objective = Self::Objective, Solution = Self::Solution>;
    type Objective: HeuristicObjective<Solution = Self::Solution>;
    type Solution: HeuristicSolution;
    fn search_many(&mut self, heuristic_ctx: &Self::Context, solutions: Vec<&Self::Solution>) -> Vec<Self::Solution>;
    fn diversify_many(&self, heuristic_ctx: &Self::Context, solutions: Vec<&Self::Solution>) -> Vec<Self::Solution>;
}
pub trait Termination: Send + Sync {
    type Context: HeuristicContext<Objective = Self::Objective>;
    type Objective: HeuristicObjective;
    fn is_termination(&self, heuristic_ctx: &mut Self::Context) -> bool;
    fn estimate(&self, heuristic_ctx: &Self::Context) -> Float;
}
pub trait EvolutionStrategy {
    type Context: HeuristicContext<Objective = Self::Objective, Solution = Self::Solution>;
    type Objective: HeuristicObjective<Solution = Self::Solution>;
    type Solution: HeuristicSolution;
    fn run(&mut self, heuristic_ctx: Self::Context, termination: Box<dyn Termination<Context = Self::Context, Objective = Self::Objective>>) -> EvolutionResult<Self::Solution>;
}

// ------------------------------------------------------------------ code under contract (verbatim from /repo)
//@extract rosomaxa/src/evolution/mod.rs :: trait HeuristicContextProcessing
//@end
//@extract rosomaxa/src/evolution/mod.rs :: trait HeuristicSolutionProcessing
//@end
//@extract rosomaxa/src/evolution/config.rs :: struct EvolutionConfig
//@end
//@extract rosomaxa/src/evolution/config.rs :: trait InitialOperator
//@end
//@extract rosomaxa/src/evolution/config.rs :: type InitialOperators
//@end
//@extract rosomaxa/src/evolution/config.rs :: struct InitialConfig
//@end
//@extract rosomaxa/src/evolution/config.rs :: struct ProcessingConfig
//@end
//@extract rosomaxa/src/evolution/simulator.rs :: struct EvolutionSimulator
//@end
//@extract rosomaxa/src/evolution/simulator.rs :: impl<C, O, S> EvolutionSimulator<C, O, S>
//@end
//@extract rosomaxa/src/evolution/strategies/iterative.rs :: struct Iterative
//@end
//@extract rosomaxa/src/evolution/strategies/iterative.rs :: impl<C, O, S> Iterative<C, O, S>
//@end
//@extract rosomaxa/src/evolution/strategies/iterative.rs :: impl<C, O, S> EvolutionStrategy for Iterative<C, O, S>
//@end
//@extract rosomaxa/src/termination/max_generation.rs :: *
//@end

#[cfg(kani)]
mod h {
    use super::*;
    use std::sync::atomic::{AtomicUsize, Ordering};
    struct Obj; impl HeuristicObjective for Obj { type Solution = Sol; }
    #[derive(Clone)] struct Sol(u8); impl HeuristicSolution for Sol { fn deep_copy(&self) -> Self { Sol(self.0) } }
    /// computation quota that becomes true at poll index `fire_at` (and stays true)
    struct Q { polls: AtomicUsize, fire_at: usize }
    impl Quota for Q { fn is_reached(&self) -> bool { let p = self.polls.fetch_add(1, Ordering::SeqCst); p >= self.fire_at } }
    struct Rnd; impl Random for Rnd { fn weighted(&self, weights: &[usize]) -> usize { 0 } }
    struct Pop(Vec<Sol>); impl HeuristicPopulationLike<Sol> for Pop { fn ranked(&self) -> Box<dyn Iterator<Item = &'_ Sol> + '_> { Box::new(self.0.iter()) } }
    struct Ctx { stats: HeuristicStatistics, env: Environment, pop: Vec<Sol> }
    impl HeuristicContext for Ctx {
        type Objective = Obj; type Solution = Sol;
        fn selected(&self) -> Box<dyn Iterator<Item = &'_ Sol> + '_> { Box::new(self.pop.iter().take(1)) }
        fn statistics(&self) -> &HeuristicStatistics { &self.stats }
        fn selection_phase(&self) -> SelectionPhase { SelectionPhase::Exploitation }
        fn environment(&self) -> &Environment { &self.env }
        fn on_initial(&mut self, solution: Sol, _: Timer) { self.pop.push(solution); }
        fn on_generation(&mut self, offspring: Vec<Sol>, _: Float, _: Timer) { self.stats.generation += 1; if let Some(s) = offspring.into_iter().next() { if !self.pop.is_empty() { self.pop[0] = s; } } }
        fn on_result(self) -> Result<(Box<dyn HeuristicPopulationLike<Sol>>, Option<TelemetryMetrics>), GenericError> { Ok((Box::new(Pop(self.pop)), None)) }
    }
    struct H { searches: Arc<AtomicUsize> }
    impl Display for H { fn fmt(&self, f: &mut std::fmt::Formatter<'_>) -> std::fmt::Result { Ok(()) } }
    impl HyperHeuristic for H {
        type Context = Ctx; type Objective = Obj; type Solution = Sol;
        fn search_many(&mut self, _: &Ctx, s: Vec<&Sol>) -> Vec<Sol> { self.searches.fetch_add(1, Ordering::SeqCst); s.into_iter().map(|x| x.deep_copy()).collect() }
        fn diversify_many(&self, _: &Ctx, _: Vec<&Sol>) -> Vec<Sol> { Vec::new() }
    }
    /// construction heuristic: builds a (possibly partial) solution even when interrupted - that it does is C07's insertion-heuristic clause
    struct Init;
    impl InitialOperator for Init { type Context = Ctx; type Objective = Obj; type Solution = Sol; fn create(&self, _: &Ctx) -> Sol { Sol(1) } }

    /// C07: whatever poll index the quota fires at - including BEFORE construction (index 0) - and for every positive
    /// generation limit, the simulator returns normally with a non-empty result (work not yet placed is carried by the
    /// initial solution as unassigned); it never runs more generations than configured
    fn sim(limit: usize, max_size: usize, quota_fires_at: Option<usize>) {
        let (has_quota, fire_at) = (quota_fires_at.is_some(), quota_fires_at.unwrap_or(0));
        let searches = Arc::new(AtomicUsize::new(0));
        let env = Environment { quota: if has_quota { Some(Arc::new(Q { polls: AtomicUsize::new(0), fire_at })) } else { None }, logger: Arc::new(|_| {}), random: Arc::new(Rnd) };
        let config = EvolutionConfig {
            initial: InitialConfig { operators: vec![(Box::new(Init), 1)], max_size, quota: 0.5, individuals: vec![] },
            processing: ProcessingConfig { context: vec![], solution: vec![] },
            context: Ctx { stats: HeuristicStatistics { generation: 0 }, env, pop: vec![] },
            strategy: Box::new(Iterative::new(Box::new(H { searches: searches.clone() }), 1)),
            termination: Box::new(MaxGeneration::<Ctx, Obj, Sol>::new(limit)),
        };
        let Ok(sim) = EvolutionSimulator::new(config) else { panic!("post_config_with_an_initial_operator_is_accepted") };
        let r = sim.run();
        match r {
            Ok((solutions, _)) => assert!(solutions.len() == 1, "post_interrupted_run_still_returns_a_solution"),
            Err(_) => panic!("post_run_returns_normally"),
        }
        assert!(searches.load(Ordering::SeqCst) <= limit, "post_never_more_generations_than_configured_maximum");
    }
    // constant-shaped instances (CBMC needs > 10 GB when limit / population size / poll index are symbolic)
    #[kani::proof] #[kani::unwind(6)] fn simulator_interrupted_before_construction() { sim(1, 1, Some(0)) }
    #[kani::proof] #[kani::unwind(6)] fn simulator_interrupted_at_poll_1() { sim(2, 2, Some(1)) }
    #[kani::proof] #[kani::unwind(6)] fn simulator_interrupted_at_poll_2() { sim(2, 2, Some(2)) }
    #[kani::proof] #[kani::unwind(6)] fn simulator_interrupted_at_poll_3() { sim(2, 1, Some(3)) }
    #[kani::proof] #[kani::unwind(6)] fn simulator_not_interrupted() { sim(2, 2, None) }
}
