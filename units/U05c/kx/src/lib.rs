// U05c – capacity feature: CapacitatedMultiTrip::recalculate_states (verbatim) computes, per reload interval, exactly the
// load profile and the running maxima that the capacity gate (U01b) and lemma L01 assume
#![allow(dead_code, unused_variables, unused_imports)]
use std::any::Any;
use std::cmp::Ordering;
use std::fmt::{Debug, Display, Formatter};
use std::iter::Sum;
use std::marker::PhantomData;
use std::ops::{Add, ControlFlow, Mul, Sub};
use std::sync::Arc;

pub type Float = f64;
#[derive(Clone, Copy, Debug, PartialEq, Eq)] pub struct ViolationCode(pub i32);

// ------------------------------------------------------------------ code under contract (verbatim from /repo)
//@extract rosomaxa/src/utils/types.rs :: trait UnwrapValue
//@end
//@extract rosomaxa/src/utils/types.rs :: impl<T> UnwrapValue for ControlFlow<T, T>
//@end
//@extract vrp-core/src/models/common/load.rs :: *
//@end
//@extract vrp-core/src/construction/features/capacity.rs :: struct CapacitatedMultiTrip
//@end
impl<T: LoadOps> CapacitatedMultiTrip<T> {
//@extract vrp-core/src/construction/features/capacity.rs :: impl<T> MultiTrip for CapacitatedMultiTrip<T>/fn get_route_intervals
//@end
//@extract vrp-core/src/construction/features/capacity.rs :: impl<T> MultiTrip for CapacitatedMultiTrip<T>/fn recalculate_states
//@end
//@extract vrp-core/src/construction/features/capacity.rs :: impl<T> CapacitatedMultiTrip<T>/fn get_demand
//@end
//@extract vrp-core/src/construction/features/capacity.rs :: impl<T> CapacitatedMultiTrip<T>/fn has_markers
//@end
//@extract vrp-core/src/construction/features/capacity.rs :: impl<T> CapacitatedMultiTrip<T>/fn can_handle_demand_on_intervals
//@end
//@extract vrp-core/src/construction/features/capacity.rs :: impl<T> CapacitatedMultiTrip<T>/fn evaluate_activity
//@end
}
//@extract vrp-core/src/construction/features/capacity.rs :: fn has_demand_violation
//@end

// ------------------------------------------------------------------ environment (assumed surroundings, NOT under proof)
pub struct Dimensions { pub demand: Option<Box<dyn Any + Send + Sync>>, pub capacity: Option<Box<dyn Any + Send + Sync>> }
impl Dimensions {
    pub fn get_job_demand<T: LoadOps>(&self) -> Option<&Demand<T>> { self.demand.as_ref().and_then(|d| d.downcast_ref::<Demand<T>>()) }
    pub fn get_vehicle_capacity<T: LoadOps>(&self) -> Option<&T> { self.capacity.as_ref().and_then(|c| c.downcast_ref::<T>()) }
}
pub struct Single { pub dimens: Dimensions, pub part_of_multi: bool }
pub struct Multi {}
pub enum Job { Single(Arc<Single>), Multi(Arc<Multi>) }
impl Job { pub fn as_multi(&self) -> Option<&Arc<Multi>> { match self { Job::Multi(m) => Some(m), _ => None } } }
#[derive(Clone, Debug, PartialEq, Eq)] pub struct ConstraintViolation { pub code: ViolationCode, pub stopped: bool }
pub struct ActivityContext<'a> { pub index: usize, pub prev: &'a Activity, pub target: &'a Activity, pub next: Option<&'a Activity> }
pub struct Activity { pub job: Option<Arc<Single>> }
impl Activity {
    /// real: Multi::roots(single) - a sub-job knows the multi job it belongs to
    pub fn retrieve_job(&self) -> Option<Job> { self.job.as_ref().map(|s| if s.part_of_multi { Job::Multi(Arc::new(Multi {})) } else { Job::Single(s.clone()) }) }
}
pub struct Tour { pub activities: Vec<Activity> }
impl Tour {
    pub fn total(&self) -> usize { self.activities.len() }
    pub fn end_idx(&self) -> Option<usize> { self.activities.len().checked_sub(1) }
    pub fn activities_slice(&self, start: usize, end: usize) -> &[Activity] { &self.activities[start..=end] }
}
pub struct Vehicle { pub dimens: Dimensions }
pub struct Actor { pub vehicle: Arc<Vehicle> }
pub struct Route { pub actor: Arc<Actor>, pub tour: Tour }
/// real: RouteState type map with macro-generated setters (custom_activity_state! / custom_tour_state!)
#[derive(Default)]
pub struct RouteState { pub current: Option<Box<dyn Any>>, pub max_past: Option<Box<dyn Any>>, pub max_future: Option<Box<dyn Any>>, pub max_vehicle_load: Option<Float>, pub intervals: Option<Vec<(usize, usize)>> }
impl RouteState {
    pub fn set_current_capacity_states<T: LoadOps>(&mut self, v: Vec<T>) { self.current = Some(Box::new(v)); }
    pub fn set_max_past_capacity_states<T: LoadOps>(&mut self, v: Vec<T>) { self.max_past = Some(Box::new(v)); }
    pub fn set_max_future_capacity_states<T: LoadOps>(&mut self, v: Vec<T>) { self.max_future = Some(Box::new(v)); }
    pub fn set_max_vehicle_load(&mut self, v: Float) { self.max_vehicle_load = Some(v); }
    pub fn get_current_capacity_at<T: LoadOps>(&self, idx: usize) -> Option<&T> { self.current.as_ref().and_then(|b| b.downcast_ref::<Vec<T>>()).and_then(|v| v.get(idx)) }
    pub fn get_max_future_capacity_at<T: LoadOps>(&self, idx: usize) -> Option<&T> { self.max_future.as_ref().and_then(|b| b.downcast_ref::<Vec<T>>()).and_then(|v| v.get(idx)) }
    pub fn get_max_past_capacity_at<T: LoadOps>(&self, idx: usize) -> Option<&T> { self.max_past.as_ref().and_then(|b| b.downcast_ref::<Vec<T>>()).and_then(|v| v.get(idx)) }
}
pub struct RouteContext { pub route: Route, pub state: RouteState }
impl RouteContext {
    pub fn route(&self) -> &Route { &self.route }
    pub fn state(&self) -> &RouteState { &self.state }
    pub fn state_mut(&mut self) -> &mut RouteState { &mut self.state }
}
/// reload intervals: `Single` = the whole tour; `Multiple` = the marker intervals cached in the route state (how they are
/// derived from reload marker jobs is route_intervals.rs, not under contract)
pub enum RouteIntervals { Single, Multiple }
impl RouteIntervals {
    pub fn get_marker_intervals<'a>(&self, route_ctx: &'a RouteContext) -> Option<&'a Vec<(usize, usize)>> {
        match self { RouteIntervals::Single => None, RouteIntervals::Multiple => route_ctx.state().intervals.as_ref() }
    }
}

// ------------------------------------------------------------------ contract harness
#[cfg(kani)]
mod h {
    use super::*;
    const B: i32 = 1 << 20;
    fn v() -> i32 { let x: i32 = kani::any(); kani::assume(x >= 0 && x <= B); x }
    /// demand of a job activity: (static pickup, dynamic pickup, static delivery, dynamic delivery), or none
    #[derive(Clone, Copy)] struct D { has: bool, p0: i32, p1: i32, d0: i32, d1: i32 }
    fn any_d() -> D { D { has: kani::any(), p0: v(), p1: v(), d0: v(), d1: v() } }
    fn act(d: Option<D>) -> Activity {
        Activity { job: d.map(|d| Arc::new(Single { part_of_multi: false, dimens: Dimensions { capacity: None, demand: if d.has { Some(Box::new(Demand::<SingleDimLoad> {
            pickup: (SingleDimLoad::new(d.p0), SingleDimLoad::new(d.p1)), delivery: (SingleDimLoad::new(d.d0), SingleDimLoad::new(d.d1)) })) } else { None } } })) }
    }

    /// tour: depot, a, b, c (3 job activities); either one interval or two reload intervals [0,1] and [2,3]
    fn profile(two_intervals: bool) {
        let ds = [any_d(), any_d(), any_d()];
        let tour = Tour { activities: vec![act(None), act(Some(ds[0])), act(Some(ds[1])), act(Some(ds[2]))] };
        let actor = Arc::new(Actor { vehicle: Arc::new(Vehicle { dimens: Dimensions { demand: None, capacity: None } }) });
        let mut rc = RouteContext { route: Route { actor, tour }, state: RouteState { intervals: if two_intervals { Some(vec![(0, 1), (2, 3)]) } else { None }, ..Default::default() } };
        let mt = CapacitatedMultiTrip::<SingleDimLoad> { route_intervals: if two_intervals { RouteIntervals::Multiple } else { RouteIntervals::Single }, violation_code: ViolationCode(1), phantom: Default::default() };

        mt.recalculate_states(&mut rc);

        let cur = rc.state.current.as_ref().unwrap().downcast_ref::<Vec<SingleDimLoad>>().unwrap();
        let past = rc.state.max_past.as_ref().unwrap().downcast_ref::<Vec<SingleDimLoad>>().unwrap();
        let fut = rc.state.max_future.as_ref().unwrap().downcast_ref::<Vec<SingleDimLoad>>().unwrap();
        assert!(cur.len() == 4 && past.len() == 4 && fut.len() == 4, "post_one_state_entry_per_activity");
        // independent replay: what is on board after each activity, interval by interval
        let dem = |k: usize| -> (i32, i32, i32) { if k == 0 || !ds[k - 1].has { (0, 0, 0) } else { let d = ds[k - 1]; (d.d0, d.p0, d.p0 + d.p1 - d.d0 - d.d1) } }; // (static delivery, static pickup, net change)
        let bounds: [(usize, usize); 2] = if two_intervals { [(0, 1), (2, 3)] } else { [(0, 3), (9, 0)] };
        let mut load = [0i32; 4];
        let mut carried = 0;
        let mut b = 0;
        while b < 2 {
            let (s, e) = bounds[b];
            if s <= e {
                // static deliveries of the interval are loaded at its start, static pickups are unloaded at its end
                let (mut start, mut end_pickup) = (carried, 0);
                let mut k = s; while k <= e { start += dem(k).0; end_pickup += dem(k).1; k += 1; }
                let mut l = start;
                let mut k = s; while k <= e { l += dem(k).2; load[k] = l; k += 1; }
                carried = l - end_pickup;
                let mut k = s;
                while k <= e {
                    assert!(cur[k].value == load[k], "post_current_is_load_on_board_after_the_activity");
                    let (mut mp, mut mf) = (0, load[k]);
                    let mut j = s; while j <= k { if load[j] > mp { mp = load[j]; } j += 1; }
                    let mut j = k; while j <= e { if load[j] > mf { mf = load[j]; } j += 1; }
                    assert!(past[k].value == mp, "post_max_past_is_running_maximum_within_the_interval");
                    assert!(fut[k].value == mf, "post_max_future_is_maximum_ahead_within_the_interval");
                    k += 1;
                }
            }
            b += 1;
        }
    }
    /// C01 (capacity with reloads, pickup-and-delivery jobs): a sub-job of a multi job carries DYNAMIC demand that may stay
    /// on board into later reload intervals, so it is accepted at position `index` only if, in the interval that contains
    /// the position AND in every later interval, the load ahead plus the new load stays within capacity
    #[kani::proof] #[kani::unwind(7)]
    fn multi_job_dynamic_demand_checked_in_every_interval_from_the_insertion_on() {
        let ds = [any_d(), any_d(), any_d()];
        let tour = Tour { activities: vec![act(None), act(Some(ds[0])), act(Some(ds[1])), act(Some(ds[2]))] };
        let cap = v();
        let actor = Arc::new(Actor { vehicle: Arc::new(Vehicle { dimens: Dimensions { demand: None, capacity: Some(Box::new(SingleDimLoad::new(cap))) } }) });
        let mut rc = RouteContext { route: Route { actor, tour }, state: RouteState { intervals: Some(vec![(0, 1), (2, 3)]), ..Default::default() } };
        let mt = CapacitatedMultiTrip::<SingleDimLoad> { route_intervals: RouteIntervals::Multiple, violation_code: ViolationCode(1), phantom: Default::default() };
        mt.recalculate_states(&mut rc);      // cached states are the ones the feature itself computes (their meaning: harness above)
        // the dynamic pickup of a pickup-and-delivery job
        let c = v();
        let target = Activity { job: Some(Arc::new(Single { part_of_multi: true, dimens: Dimensions { capacity: None, demand: Some(Box::new(Demand::<SingleDimLoad> {
            pickup: (SingleDimLoad::default(), SingleDimLoad::new(c)), delivery: (SingleDimLoad::default(), SingleDimLoad::default()) })) } })) };
        let index: usize = kani::any(); kani::assume(index <= 3);
        let prev = act(None);
        let actx = ActivityContext { index, prev: &prev, target: &target, next: None };
        let r = mt.evaluate_activity(&rc, &actx);
        // independent replay of the load profile (as in `profile`)
        let dem = |k: usize| -> (i32, i32, i32) { if k == 0 || !ds[k - 1].has { (0, 0, 0) } else { let d = ds[k - 1]; (d.d0, d.p0, d.p0 + d.p1 - d.d0 - d.d1) } };
        let mut load = [0i32; 4];
        let mut carried = 0;
        let bounds = [(0usize, 1usize), (2, 3)];
        let mut b = 0;
        while b < 2 {
            let (s, e) = bounds[b];
            let (mut start, mut end_pickup) = (carried, 0);
            let mut k = s; while k <= e { start += dem(k).0; end_pickup += dem(k).1; k += 1; }
            let mut l = start;
            let mut k = s; while k <= e { l += dem(k).2; load[k] = l; k += 1; }
            carried = l - end_pickup;
            b += 1;
        }
        let mut fits = true;
        let mut b = 0;
        while b < 2 {
            let (s, e) = bounds[b];
            if index <= e { let mut k = if index > s { index } else { s }; while k <= e { fits = fits && load[k] + c <= cap; k += 1; } }
            b += 1;
        }
        if c != 0 {
            assert!(r.is_none() == fits, "post_dynamic_demand_accepted_iff_it_fits_in_every_interval_from_the_insertion_on");
            if let Some(viol) = &r { assert!(!viol.stopped && viol.code == ViolationCode(1), "post_capacity_violation_of_a_multi_job_does_not_stop_the_scan"); }
        }
        kani::cover!(c != 0 && r.is_none() && index == 1);
        kani::cover!(c != 0 && r.is_some() && index == 1);
        kani::cover!(c != 0 && r.is_some() && index == 3);
    }
    #[kani::proof] #[kani::unwind(7)] fn capacity_states_single_interval() { profile(false) }
    #[kani::proof] #[kani::unwind(7)] fn capacity_states_two_intervals() { profile(true) }
}
