// U12a – solution checker, limits group: check_shift_limits / check_shift_time / check_recharge_limits (checker/limits.rs,
// verbatim) with CheckerContext::get_vehicle / get_vehicle_shift (checker/mod.rs, verbatim), Stop::schedule / activities /
// as_point (format/solution/model.rs, verbatim) and TimeWindow::intersects (core, verbatim).
// C12: the group accepts a tour exactly when the limits it documents hold: max distance, max shift time, tour size, tour inside
// a shift's time, distance between recharges.
#![allow(dead_code, unused_macros, unused_variables, unused_imports)]
/// message text is reduced to its template (which names the rule)
macro_rules! format { ($fmt:literal $($t:tt)*) => { Msg($fmt) } }
#[path = "@VERIF_ENV@/strings.rs"]
mod verif_strings;
use verif_strings::String;
const VERIF_VEC_CAP: usize = 3;
#[path = "@VERIF_ENV@/vec_fixed.rs"]
mod verif_vec;
use verif_vec::Vec;
#[path = "@VERIF_ENV@/eager.rs"]
mod verif_eager;
use verif_eager::FlatMapEager;

// ------------------------------------------------------------------ environment (assumed)
pub type Float = f64;
pub type Distance = Float;
pub struct Msg(pub &'static str);
#[derive(Clone, Copy, PartialEq, Debug)] pub struct GenericError(pub &'static str);
impl From<Msg> for GenericError { fn from(m: Msg) -> Self { GenericError(m.0) } }
impl From<&'static str> for GenericError { fn from(m: &'static str) -> Self { GenericError(m) } }
impl From<std::string::String> for GenericError { fn from(_: std::string::String) -> Self { GenericError("(text)") } }
pub type GenericResult<T> = Result<T, GenericError>;
/// an RFC3339 time string is an opaque token carrying the instant it denotes (parsing is outside the technique)
#[derive(Clone, Copy, Default, PartialEq, Debug)] pub struct Stamp(pub Float);
pub fn parse_time(s: &Stamp) -> Float { s.0 }
#[derive(Clone, Debug, PartialEq)] pub struct TimeWindow { pub start: Float, pub end: Float }
impl TimeWindow {
    pub fn new(start: Float, end: Float) -> Self { Self { start, end } }
//@extract vrp-core/src/models/common/domain.rs :: impl TimeWindow/fn intersects
//@end
}
// problem side (only the fields the group reads)
#[derive(Clone, Copy, Default)] pub struct ShiftStart { pub earliest: Stamp }
#[derive(Clone, Copy, Default)] pub struct ShiftEnd { pub latest: Stamp }
#[derive(Clone, Copy, Default)] pub struct VehicleRecharges { pub max_distance: Float }
#[derive(Clone, Copy, Default)] pub struct VehicleShift { pub start: ShiftStart, pub end: Option<ShiftEnd>, pub recharges: Option<VehicleRecharges> }
#[derive(Clone, Copy, Default)] pub struct VehicleLimits { pub max_distance: Option<Float>, pub max_duration: Option<Float>, pub tour_size: Option<usize> }
#[derive(Clone, Copy, Default)] pub struct VehicleType { pub vehicle_ids: Vec<String>, pub shifts: Vec<VehicleShift>, pub limits: Option<VehicleLimits> }
pub struct Fleet { pub vehicles: Vec<VehicleType> }
pub struct Problem { pub fleet: Fleet }
// solution side
#[derive(Clone, Copy, Default)] pub struct Schedule { pub arrival: Stamp, pub departure: Stamp }
#[derive(Clone, Copy, Default)] pub struct Activity { pub job_id: String, pub activity_type: String }
#[derive(Clone, Copy, Default)] pub struct PointStop { pub time: Schedule, pub distance: i64, pub activities: Vec<Activity> }
#[derive(Clone, Copy, Default)] pub struct TransitStop { pub time: Schedule, pub activities: Vec<Activity> }
#[derive(Clone, Copy)] pub enum Stop { Point(PointStop), Transit(TransitStop) }
impl Default for Stop { fn default() -> Self { Stop::Point(PointStop::default()) } }
#[derive(Clone, Copy, Default)] pub struct Statistic { pub distance: i64, pub duration: i64 }
#[derive(Clone, Copy, Default)] pub struct Tour { pub vehicle_id: String, pub shift_index: usize, pub stops: Vec<Stop>, pub statistic: Statistic }
pub struct Solution { pub tours: Vec<Tour> }
pub struct CheckerContext { pub problem: Problem, pub solution: Solution }

// ------------------------------------------------------------------ code under contract (verbatim from /repo)
impl Stop {
//@extract vrp-pragmatic/src/format/solution/model.rs :: impl Stop/fn schedule
//@end
//@extract vrp-pragmatic/src/format/solution/model.rs :: impl Stop/fn activities
//@end
//@extract vrp-pragmatic/src/format/solution/model.rs :: impl Stop/fn as_point
//@end
}
impl CheckerContext {
//@extract vrp-pragmatic/src/checker/mod.rs :: impl CheckerContext/fn get_vehicle
//@subst "v.vehicle_ids.contains(&vehicle_id.to_string())" => "v.vehicle_ids.iter().any(|id| id.as_str() == vehicle_id)" count=1
//@end
//@extract vrp-pragmatic/src/checker/mod.rs :: impl CheckerContext/fn get_vehicle_shift
//@end
}
//@extract vrp-pragmatic/src/checker/limits.rs :: fn check_shift_limits
//@subst ".flat_map(" => ".flat_map_eager(" count=1
//@end
//@extract vrp-pragmatic/src/checker/limits.rs :: fn check_shift_time
//@end
//@extract vrp-pragmatic/src/checker/limits.rs :: fn check_recharge_limits
//@end

#[cfg(kani)]
mod h {
    use super::*;
    const DEPARTURE: u8 = 0; const ARRIVAL: u8 = 1; const RELOAD: u8 = 3; const JOB1: u8 = 4; const V1: u8 = 6; const V2: u8 = 7;
    fn t() -> Float { let v: u8 = kani::any(); kani::assume(v < 8); v as Float }
    fn opt_t() -> Option<Float> { if kani::any() { Some(t()) } else { None } }
    fn act(kind: u8) -> Activity { Activity { job_id: String(kind), activity_type: String(kind) } }
    fn list<T: Copy + Default, const N: usize>(xs: [T; N]) -> Vec<T> { xs.into_iter().collect() }
    fn stop(arrival: Float, departure: Float, distance: i64, activities: Vec<Activity>) -> Stop { Stop::Point(PointStop { time: Schedule { arrival: Stamp(arrival), departure: Stamp(departure) }, distance, activities }) }
    fn ctx(vt: VehicleType, tour: Tour) -> CheckerContext { CheckerContext { problem: Problem { fleet: Fleet { vehicles: list([vt]) } }, solution: Solution { tours: list([tour]) } } }
    fn shift(start: Float, end: Option<Float>, recharge: Option<Float>) -> VehicleShift { VehicleShift { start: ShiftStart { earliest: Stamp(start) }, end: end.map(|e| ShiftEnd { latest: Stamp(e) }), recharges: recharge.map(|d| VehicleRecharges { max_distance: d }) } }

    /// max distance / max shift time / tour size: rejected exactly when a stated limit is exceeded (closed tour of 3 stops,
    /// 1 or 2 activities at the middle stop)
    fn shift_limits<const TWO: bool, const END: bool>() {
        let (two_jobs, has_end) = (TWO, END);
        let limits = VehicleLimits { max_distance: opt_t(), max_duration: opt_t(), tour_size: if kani::any() { let s: u8 = kani::any(); kani::assume(s < 4); Some(s as usize) } else { None } };
        let has_limits: bool = kani::any();
        let vt = VehicleType { vehicle_ids: list([String(V1)]), shifts: list([shift(0., if has_end { Some(100.) } else { None }, None)]), limits: if has_limits { Some(limits) } else { None } };
        let (dist, dur): (u8, u8) = (kani::any(), kani::any()); kani::assume(dist < 10 && dur < 10);
        let mid = if two_jobs { list([act(JOB1), act(JOB1)]) } else { list([act(JOB1)]) };
        let stops = if has_end { list([stop(0., 0., 0, list([act(DEPARTURE)])), stop(1., 2., 1, mid), stop(3., 3., 2, list([act(ARRIVAL)]))]) }
                    else { list([stop(0., 0., 0, list([act(DEPARTURE)])), stop(1., 2., 1, mid)]) };
        let tour = Tour { vehicle_id: String(V1), shift_index: 0, stops, statistic: Statistic { distance: dist as i64, duration: dur as i64 } };
        let r = check_shift_limits(&ctx(vt, tour));
        let jobs_in_tour = if two_jobs { 2 } else { 1 };
        let broken = has_limits && (limits.max_distance.map_or(false, |m| dist as Float > m) || limits.max_duration.map_or(false, |m| dur as Float > m) || limits.tour_size.map_or(false, |m| jobs_in_tour > m));
        assert!(r.is_err() == broken, "post_limits_group_rejects_exactly_when_a_stated_limit_is_exceeded");
        kani::cover!(broken); kani::cover!(has_limits && !broken);
    }
    #[kani::proof] #[kani::unwind(12)] fn shift_limits_one_job_closed() { shift_limits::<false, true>() }
    #[kani::proof] #[kani::unwind(12)] fn shift_limits_one_job_open() { shift_limits::<false, false>() }
    #[kani::proof] #[kani::unwind(12)] fn shift_limits_two_jobs_closed() { shift_limits::<true, true>() }

    /// a tour of an unknown vehicle is rejected
    #[kani::proof] #[kani::unwind(12)]
    fn unknown_vehicle_is_rejected() {
        let vt = VehicleType { vehicle_ids: list([String(V1)]), shifts: list([shift(0., None, None)]), limits: None };
        let tour = Tour { vehicle_id: String(V2), shift_index: 0, stops: list([stop(0., 0., 0, list([act(DEPARTURE)])), stop(1., 2., 1, list([act(JOB1)]))]), statistic: Statistic::default() };
        let c = ctx(vt, tour);
        assert!(check_shift_limits(&c).is_err() && check_shift_time(&c).is_err(), "post_tour_of_unknown_vehicle_is_rejected");
    }

    /// tour time inside the time of one of the vehicle's shifts (1 or 2 shifts, the second open-ended or not)
    fn shift_time(two_shifts: bool) {
        let (s1, e1, s2) = (t(), t(), t());
        let e2 = opt_t();
        let shifts = if two_shifts { list([shift(s1, Some(e1), None), shift(s2, e2, None)]) } else { list([shift(s1, Some(e1), None)]) };
        let vt = VehicleType { vehicle_ids: list([String(V1)]), shifts, limits: None };
        let (dep, arr) = (t(), t());
        let tour = Tour { vehicle_id: String(V1), shift_index: 0, stops: list([stop(dep, dep, 0, list([act(DEPARTURE)])), stop(dep, arr, 1, list([act(JOB1)])), stop(arr, arr, 2, list([act(ARRIVAL)]))]), statistic: Statistic::default() };
        let r = check_shift_time(&ctx(vt, tour));
        let fits = (dep >= s1 && arr <= e1) || (two_shifts && dep >= s2 && e2.map_or(true, |e| arr <= e));
        assert!(r.is_ok() == fits, "post_tour_accepted_exactly_when_it_lies_inside_a_shift");
        kani::cover!(fits); kani::cover!(!fits);
    }
    #[kani::proof] #[kani::unwind(12)] fn shift_time_one_shift() { shift_time(false) }
    #[kani::proof] #[kani::unwind(12)] fn shift_time_two_shifts() { shift_time(true) }

    /// distance driven between recharges (3 stops, recharge at the middle one or not)
    #[kani::proof] #[kani::unwind(12)]
    fn recharge_distance_limit() {
        let max = t();
        let has_recharges: bool = kani::any();
        let vt = VehicleType { vehicle_ids: list([String(V1)]), shifts: list([shift(0., Some(100.), if has_recharges { Some(max) } else { None })]), limits: None };
        let (d1, d2): (u8, u8) = (kani::any(), kani::any()); kani::assume(d1 < 8 && d2 < 8);
        let recharge_at_mid: bool = kani::any();
        let mid = Activity { job_id: String(JOB1), activity_type: if recharge_at_mid { RECHARGE } else { String(JOB1) } };
        let tour = Tour { vehicle_id: String(V1), shift_index: 0, stops: list([stop(0., 0., 0, list([act(DEPARTURE)])), stop(1., 2., d1 as i64, list([mid])), stop(3., 3., (d1 + d2) as i64, list([act(ARRIVAL)]))]), statistic: Statistic::default() };
        let r = check_recharge_limits(&ctx(vt, tour));
        let broken = has_recharges && (d1 as Float > max || (if recharge_at_mid { d2 as Float } else { (d1 + d2) as Float }) > max);
        assert!(r.is_err() == broken, "post_rejected_exactly_when_a_stretch_between_recharges_exceeds_the_limit");
        kani::cover!(broken && recharge_at_mid); kani::cover!(!broken && has_recharges && recharge_at_mid && (d1 + d2) as Float > max);
    }
    const RECHARGE: String = String(8);
}
