// U18b – rewards of the adaptive operator selector (hyper/dynamic_selective.rs, verbatim): get_relative_distance and
// estimate_distance_reward are finite for finite fitness vectors; their range
#![allow(dead_code, unused_variables, unused_imports)]
use std::cmp::Ordering;
pub type Float = f64;

// ------------------------------------------------------------------ environment (assumed)
pub trait HeuristicSolution { fn fitness(&self) -> impl Iterator<Item = Float>; }
pub trait HeuristicObjective { type Solution; fn total_order(&self, a: &Self::Solution, b: &Self::Solution) -> Ordering; }
pub trait HeuristicContext {
    type Objective: HeuristicObjective<Solution = Self::Solution>;
    type Solution: HeuristicSolution;
    fn objective(&self) -> &Self::Objective;
    fn ranked(&self) -> Box<dyn Iterator<Item = &'_ Self::Solution> + '_>;
}

// ------------------------------------------------------------------ code under contract (verbatim from /repo)
//@extract rosomaxa/src/hyper/dynamic_selective.rs :: fn estimate_distance_reward
//@end
//@extract rosomaxa/src/hyper/dynamic_selective.rs :: fn get_relative_distance
//@end

#[cfg(kani)]
mod h {
    use super::*;
    const N: usize = 2;
    struct Sol([Float; N]);
    impl HeuristicSolution for Sol { fn fitness(&self) -> impl Iterator<Item = Float> { self.0.iter().cloned() } }
    /// the goal compares fitness vectors lexicographically (single-objective layers: U09b)
    struct Obj;
    impl HeuristicObjective for Obj {
        type Solution = Sol;
        fn total_order(&self, a: &Sol, b: &Sol) -> Ordering { let mut i = 0; while i < N { let c = a.0[i].total_cmp(&b.0[i]); if c != Ordering::Equal { return c; } i += 1; } Ordering::Equal }
    }
    struct Ctx { obj: Obj, best: Vec<Sol> }
    impl HeuristicContext for Ctx { type Objective = Obj; type Solution = Sol; fn objective(&self) -> &Obj { &self.obj } fn ranked(&self) -> Box<dyn Iterator<Item = &'_ Sol> + '_> { Box::new(self.best.iter()) } }
    /// fitness values: small integers of either sign (counts, distances, costs are non-negative; a maximised value is reported negated), exact in floats
    fn f() -> Float { let v: i8 = kani::any(); kani::assume(v >= -8 && v <= 7); v as Float }
    fn any_sol() -> Sol { Sol([f(), f()]) }

    /// C18: for finite fitness vectors the relative distance is finite, positive iff a is better, 0 iff equal, and within
    /// [-(N - idx), N - idx] where idx is the first objective in which the vectors differ
    #[kani::proof] #[kani::unwind(5)]
    fn relative_distance_finite_and_bounded() {
        let (a, b) = (any_sol(), any_sol());
        let d = get_relative_distance(&Obj, &a, &b);
        assert!(d.is_finite(), "post_relative_distance_finite");
        let ord = Obj.total_order(&a, &b);
        assert!((d > 0.) == (ord == Ordering::Less) && (d < 0.) == (ord == Ordering::Greater), "post_sign_tells_which_is_better");
        let idx = if a.0[0] != b.0[0] { 0 } else { 1 };
        // the documented bound N - idx holds for values of one sign; of opposite signs |a - b| can reach twice the larger magnitude
        let same_sign = a.0[idx] * b.0[idx] >= 0.;
        assert!(d.abs() <= (if same_sign { 1. } else { 2. }) * (N - idx) as Float, "post_relative_distance_within_documented_bound");
        kani::cover!(d > 1.);
        kani::cover!(d == 0.);
    }

    /// C18: the distance reward is finite and non-negative for finite fitness vectors
    #[kani::proof] #[kani::unwind(5)]
    fn distance_reward_finite_non_negative() {
        let (initial, new, best) = (any_sol(), any_sol(), any_sol());
        let has_best: bool = kani::any();
        let ctx = Ctx { obj: Obj, best: if has_best { vec![best] } else { vec![] } };
        let r = estimate_distance_reward(&ctx, &initial, &new);
        assert!(r.is_finite() && r >= 0., "post_distance_reward_finite_non_negative");
        if !has_best { assert!(r == 0., "post_no_best_known_no_reward"); }
        kani::cover!(r > 0.);
    }

    /// KNOWN FINDING F6: the doc comment promises a reward in [0, 6]; with two or more objectives the priority amplifier
    /// (N - idx) lets the reward reach 3N + 3
    #[kani::proof] #[kani::unwind(5)]
    fn reward_within_documented_range() {
        let (initial, new, best) = (any_sol(), any_sol(), any_sol());
        let ctx = Ctx { obj: Obj, best: vec![best] };
        let r = estimate_distance_reward(&ctx, &initial, &new);
        assert!(r <= 6., "post_distance_reward_within_documented_range_0_6");
    }
}
