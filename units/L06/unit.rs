// L06 – meaning of the cached latest-arrival state: if la[] satisfies the backward recurrence that U03a proves
// update_states to compute, and the tour is currently feasible, then ANY arrival at activity k that is not later than
// la[k] lets every later activity be reached within its time window - for any tour length.
// This is what the time-window gate (U01a) relies on when it compares the arrival at `next` with latest_arrival[next].
// Mathematical integers (machine floats treated as numbers: an assumption; monotone rounding makes it plausible).
use vstd::prelude::*;
verus! {

pub struct Tour { pub start: Seq<int>, pub end: Seq<int>, pub dur: Seq<int>, pub travel: Seq<int> }  // travel[k] = d(k, k+1)
pub open spec fn shaped(t: Tour) -> bool {
    &&& t.start.len() == t.end.len() && t.dur.len() == t.end.len() && t.travel.len() == t.end.len()
    &&& forall|k: int| 0 <= k < t.end.len() ==> (#[trigger] t.start[k]) <= t.end[k] && t.dur[k] >= 0 && t.travel[k] >= 0
}
pub open spec fn max(a: int, b: int) -> int { if a >= b { a } else { b } }
pub open spec fn min(a: int, b: int) -> int { if a <= b { a } else { b } }
/// forward propagation: arrival at activity j when activity k is reached at time a
pub open spec fn arrive(t: Tour, k: int, a: int, j: int) -> int decreases j - k {
    if j <= k { a } else { max(arrive(t, k, a, j - 1), t.start[j - 1]) + t.dur[j - 1] + t.travel[j - 1] }
}
/// backward recurrence of update_states (open end: the last activity's own window end)
pub open spec fn la(t: Tour, k: int) -> int decreases t.end.len() - k {
    if k >= t.end.len() - 1 { t.end[k] } else { min(t.end[k], la(t, k + 1) - t.travel[k] - t.dur[k]) }
}

pub proof fn lemma_la_le_end(t: Tour, k: int)
    requires shaped(t), 0 <= k < t.end.len()
    ensures la(t, k) <= t.end[k]
{}

/// any arrival within la[k] propagates to arrivals within la[j] (hence within the windows) for all j >= k,
/// provided waiting never pushes a service start beyond la (start[j] <= la[j]: true for a currently feasible tour, below)
pub proof fn lemma_within_la_stays_feasible(t: Tour, k: int, a: int, j: int)
    requires shaped(t), 0 <= k <= j < t.end.len(), a <= la(t, k),
             forall|i: int| k <= i < t.end.len() ==> (#[trigger] t.start[i]) <= la(t, i),
    ensures arrive(t, k, a, j) <= la(t, j), arrive(t, k, a, j) <= t.end[j]
    decreases j - k
{
    if j > k {
        lemma_within_la_stays_feasible(t, k, a, j - 1);
        let s = max(arrive(t, k, a, j - 1), t.start[j - 1]);
        assert(s <= la(t, j - 1));
        assert(la(t, j - 1) <= la(t, j) - t.travel[j - 1] - t.dur[j - 1]);
    }
    lemma_la_le_end(t, j);
}

/// a tour that is feasible from activity k on when k is reached at a0 has start[i] <= la[i] for every i >= k
pub proof fn lemma_feasible_tour_has_slack(t: Tour, k: int, a0: int, i: int)
    requires shaped(t), 0 <= k <= i < t.end.len(),
             forall|j: int| k <= j < t.end.len() ==> #[trigger] arrive(t, k, a0, j) <= t.end[j],
    ensures max(arrive(t, k, a0, i), t.start[i]) <= la(t, i), t.start[i] <= la(t, i)
    decreases t.end.len() - i
{
    if i < t.end.len() - 1 {
        lemma_feasible_tour_has_slack(t, k, a0, i + 1);
        assert(arrive(t, k, a0, i + 1) == max(arrive(t, k, a0, i), t.start[i]) + t.dur[i] + t.travel[i]);
    } else {
        assert(arrive(t, k, a0, i) <= t.end[i]);
    }
}

// vacuity guard: must be REJECTED
pub proof fn vacuity_la_not_trivial(t: Tour) requires shaped(t), t.end.len() == 2 { assert(la(t, 0) == t.end[0]); }

} // verus!
fn main() {}
