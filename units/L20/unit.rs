// L20 – telescoping: inserting a stop t between positions p and p+1 of a tour changes the sum of leg lengths by exactly
// d(p,t) + d(t,n) - d(p,n) (n the old successor), and by d(p,t) at the open end - for any tour length.
// Mathematical integers; the float version on integer-valued matrices is the bounded unit U03a (est_* harnesses).
use vstd::prelude::*;
verus! {

pub uninterp spec fn d(a: int, b: int) -> int;
/// sum of the legs of a visiting order (sequence of locations)
pub open spec fn legs(s: Seq<int>) -> int decreases s.len() {
    if s.len() < 2 { 0 } else { legs(s.drop_last()) + d(s[s.len() - 2], s.last()) }
}
pub proof fn lemma_insert_delta(s: Seq<int>, i: int, t: int)
    requires 1 <= i <= s.len()
    ensures legs(s.insert(i, t)) == legs(s) + (if i < s.len() { d(s[i - 1], t) + d(t, s[i]) - d(s[i - 1], s[i]) } else { d(s[i - 1], t) })
    decreases s.len() - i
{
    reveal_with_fuel(legs, 3);
    let u = s.insert(i, t);
    if i == s.len() {
        assert(u.drop_last() == s);
        assert(u[u.len() - 2] == s[i - 1]);
    } else if i == s.len() - 1 {
        // u = s[..i] ++ [t, s[i]]
        assert(u.drop_last() == s.drop_last().push(t));
        assert(s.drop_last().push(t).drop_last() == s.drop_last());
        assert(u.last() == s.last() && u[u.len() - 2] == t);
        let w = s.drop_last().push(t);
        assert(w[w.len() - 2] == s[i - 1] && w.last() == t);
        assert(legs(w) == legs(s.drop_last()) + d(s[i - 1], t));
        assert(legs(u) == legs(w) + d(t, s[i]));
        assert(legs(s) == legs(s.drop_last()) + d(s[i - 1], s[i]));
    } else {
        assert(u.drop_last() == s.drop_last().insert(i, t));
        assert(u.last() == s.last() && u[u.len() - 2] == s[s.len() - 2]);
        lemma_insert_delta(s.drop_last(), i, t);
        assert(s.drop_last()[i - 1] == s[i - 1] && s.drop_last()[i] == s[i]);
        assert(legs(u) == legs(u.drop_last()) + d(s[s.len() - 2], s.last()));
        assert(legs(s) == legs(s.drop_last()) + d(s[s.len() - 2], s.last()));
    }
}

// vacuity guard: must be REJECTED
pub proof fn vacuity_insert_changes_sum(s: Seq<int>, t: int) requires s.len() == 2 { assert(legs(s.insert(1, t)) == legs(s)); }

} // verus!
fn main() {}
