// L02 – conservation of jobs: every step that respects the contracts proved for the primitives keeps, for every job j,
// the number of places where j lives ( required ⊎ ignored ⊎ keys(unassigned) ⊎ tours ) unchanged.
// Pure specification lemma (no code extracted): it connects the postconditions of U02a (try_remove_job) and U14a
// (Tour::insert_at / remove) to the statement of C02/C04 "every job lives in exactly one place".
use vstd::prelude::*;
verus! {

pub struct Job { pub id: int }

/// abstract solution: the buckets of SolutionContext and the job sets of the tours
pub struct Sol { pub required: Seq<Job>, pub ignored: Seq<Job>, pub unassigned: Set<Job>, pub tours: Seq<Set<Job>> }

pub open spec fn occ(s: Seq<Job>, j: Job) -> nat decreases s.len() {
    if s.len() == 0 { 0 } else { occ(s.drop_last(), j) + if s.last() == j { 1nat } else { 0nat } }
}
pub open spec fn one(b: bool) -> nat { if b { 1 } else { 0 } }
pub open spec fn in_tours(t: Seq<Set<Job>>, j: Job) -> nat decreases t.len() {
    if t.len() == 0 { 0 } else { in_tours(t.drop_last(), j) + one(t.last().contains(j)) }
}
pub open spec fn count(s: Sol, j: Job) -> nat { occ(s.required, j) + occ(s.ignored, j) + one(s.unassigned.contains(j)) + in_tours(s.tours, j) }

pub proof fn lemma_occ_push(s: Seq<Job>, x: Job, j: Job)
    ensures occ(s.push(x), j) == occ(s, j) + one(x == j)
{ assert(s.push(x).drop_last() == s); }

pub proof fn lemma_in_tours_update(t: Seq<Set<Job>>, i: int, v: Set<Job>, j: Job)
    requires 0 <= i < t.len()
    ensures in_tours(t.update(i, v), j) + one(t[i].contains(j)) == in_tours(t, j) + one(v.contains(j))
    decreases t.len()
{
    let u = t.update(i, v);
    if i == t.len() - 1 {
        assert(u.drop_last() == t.drop_last());
    } else {
        assert(u.drop_last() == t.drop_last().update(i, v));
        assert(u.last() == t.last());
        lemma_in_tours_update(t.drop_last(), i, v, j);
    }
}

/// step "removal" = postcondition of JobRemovalTracker::try_remove_job returning true (U02a)
pub open spec fn removal_step(a: Sol, b: Sol, idx: int, job: Job) -> bool {
    &&& 0 <= idx < a.tours.len()
    &&& a.tours[idx].contains(job)
    &&& b.required == a.required.push(job)
    &&& b.tours == a.tours.update(idx, a.tours[idx].remove(job))
    &&& b.ignored == a.ignored && b.unassigned == a.unassigned
}
pub proof fn lemma_removal_conserves(a: Sol, b: Sol, idx: int, job: Job, j: Job)
    requires removal_step(a, b, idx, job)
    ensures count(b, j) == count(a, j)
{
    lemma_occ_push(a.required, job, j);
    lemma_in_tours_update(a.tours, idx, a.tours[idx].remove(job), j);
}

/// step "insertion" = a job taken from position k of `required` is put into tour idx (Tour::insert_at, U14a:
/// jobset' = jobset.insert(job)); the job was in no tour before
pub open spec fn insertion_step(a: Sol, b: Sol, idx: int, k: int, job: Job) -> bool {
    &&& 0 <= idx < a.tours.len() && 0 <= k < a.required.len() && a.required[k] == job
    &&& !a.tours[idx].contains(job)
    &&& b.required == a.required.remove(k)
    &&& b.tours == a.tours.update(idx, a.tours[idx].insert(job))
    &&& b.ignored == a.ignored && b.unassigned == a.unassigned
}
pub proof fn lemma_occ_remove(s: Seq<Job>, k: int, j: Job)
    requires 0 <= k < s.len()
    ensures occ(s.remove(k), j) + one(s[k] == j) == occ(s, j)
    decreases s.len()
{
    if k == s.len() - 1 {
        assert(s.remove(k) == s.drop_last());
    } else {
        assert(s.remove(k).drop_last() == s.drop_last().remove(k));
        assert(s.remove(k).last() == s.last());
        lemma_occ_remove(s.drop_last(), k, j);
    }
}
pub proof fn lemma_insertion_conserves(a: Sol, b: Sol, idx: int, k: int, job: Job, j: Job)
    requires insertion_step(a, b, idx, k, job)
    ensures count(b, j) == count(a, j)
{
    lemma_occ_remove(a.required, k, j);
    lemma_in_tours_update(a.tours, idx, a.tours[idx].insert(job), j);
}

/// step "finalisation" = a job at position k of `required` that could not be placed goes to `unassigned` (it was not there)
pub open spec fn unassign_step(a: Sol, b: Sol, k: int, job: Job) -> bool {
    &&& 0 <= k < a.required.len() && a.required[k] == job && !a.unassigned.contains(job)
    &&& b.required == a.required.remove(k)
    &&& b.unassigned == a.unassigned.insert(job)
    &&& b.ignored == a.ignored && b.tours == a.tours
}
pub proof fn lemma_unassign_conserves(a: Sol, b: Sol, k: int, job: Job, j: Job)
    requires unassign_step(a, b, k, job)
    ensures count(b, j) == count(a, j)
{ lemma_occ_remove(a.required, k, j); }

/// hence "every known job is counted exactly once" is an invariant of any sequence of such steps
pub open spec fn step(a: Sol, b: Sol) -> bool {
    ||| exists|idx: int, job: Job| removal_step(a, b, idx, job)
    ||| exists|idx: int, k: int, job: Job| insertion_step(a, b, idx, k, job)
    ||| exists|k: int, job: Job| unassign_step(a, b, k, job)
}
pub proof fn lemma_step_conserves(a: Sol, b: Sol, j: Job)
    requires step(a, b)
    ensures count(b, j) == count(a, j)
{
    if exists|idx: int, job: Job| removal_step(a, b, idx, job) {
        let (idx, job) = choose|idx: int, job: Job| removal_step(a, b, idx, job);
        lemma_removal_conserves(a, b, idx, job, j);
    } else if exists|idx: int, k: int, job: Job| insertion_step(a, b, idx, k, job) {
        let (idx, k, job) = choose|idx: int, k: int, job: Job| insertion_step(a, b, idx, k, job);
        lemma_insertion_conserves(a, b, idx, k, job, j);
    } else {
        let (k, job) = choose|k: int, job: Job| unassign_step(a, b, k, job);
        lemma_unassign_conserves(a, b, k, job, j);
    }
}

// vacuity guard: must be REJECTED (a removal does change where the job lives)
pub proof fn vacuity_removal_changes_buckets(a: Sol, b: Sol, idx: int, job: Job)
    requires removal_step(a, b, idx, job)
{ assert(occ(b.required, job) == occ(a.required, job)); }

} // verus!
fn main() {}
