// U14b – Tour::legs / index / index_last / job_activities / deep_copy (iterator code outside Verus' subset; verbatim Tour)
#![allow(dead_code, unused_variables, unused_imports, mismatched_lifetime_syntaxes)]
#[path = "@VERIF_ENV@/collections.rs"]
mod verif_env;
use verif_env::HashSet;
use std::hash::BuildHasherDefault;
use std::iter::once;
use std::slice::{Iter, IterMut};

// ------------------------------------------------------------------ environment (assumed)
pub struct FxHasher;
#[derive(Clone, PartialEq, Eq, Debug)] pub struct Job(pub u8);
/// activities carry a tag so that the harness can recognise them; real Activity has place/schedule/commute
pub struct Activity { pub tag: u8, pub job: Option<u8> }
impl Activity {
    pub fn deep_copy(&self) -> Self { Self { tag: self.tag, job: self.job } }
    pub fn has_same_job(&self, job: &Job) -> bool { self.job == Some(job.0) }
    pub fn retrieve_job(&self) -> Option<Job> { self.job.map(Job) }
}
pub type Leg<'a> = (&'a [Activity], usize);

// ------------------------------------------------------------------ code under contract (verbatim from /repo)
//@extract vrp-core/src/utils/types.rs :: enum Either
//@end
//@extract vrp-core/src/utils/types.rs :: impl<L, R> Clone for Either<L, R>
//@end
//@extract vrp-core/src/utils/types.rs :: impl<L, R, T> Iterator for Either<L, R>
//@end
//@extract vrp-core/src/models/solution/tour.rs :: struct Tour
//@end
//@extract vrp-core/src/models/solution/tour.rs :: impl Tour/* skip=new
//@end

#[cfg(kani)]
mod h {
    use super::*;
    /// tour with n job activities (activity k belongs to job jobs[k]), tags = positions
    fn tour(n: usize, closed: bool, jobs: [u8; 3]) -> Tour {
        let mut t = Tour::default();
        t.set_start(Activity { tag: 0, job: None });
        if closed { t.set_end(Activity { tag: 9, job: None }); }
        let mut k = 0;
        while k < n { t.insert_last(Activity { tag: 1 + k as u8, job: Some(jobs[k]) }); k += 1; }
        t
    }
    /// C14: the leg enumeration matches consecutive activities, numbered from 0, plus the extra open-end leg
    /// (a one-activity slice) for an open tour with jobs; a bare start activity gives one single-activity leg
    fn legs_match(n: usize, closed: bool) {
        let t = tour(n, closed, [1, 2, 3]);
        let total = t.total();
        let mut i = 0;
        for (slice, idx) in t.legs() {
            assert!(idx == i, "post_legs_numbered_consecutively_from_zero");
            if total == 1 { assert!(slice.len() == 1 && slice[0].tag == 0, "post_bare_start_gives_single_activity_leg"); }
            else if i + 1 < total { assert!(slice.len() == 2 && slice[0].tag == t.get(i).unwrap().tag && slice[1].tag == t.get(i + 1).unwrap().tag, "post_leg_is_pair_of_consecutive_activities"); }
            else { assert!(!closed && slice.len() == 1 && slice[0].tag == t.get(i).unwrap().tag, "post_open_end_leg_is_last_activity_alone"); }
            i += 1;
        }
        let expected = if total == 1 { 1 } else if closed { total - 1 } else { total };
        assert!(i == expected, "post_leg_count");
        assert!(t.job_activity_count() == n && t.job_count() == n && t.has_jobs() == (n > 0), "post_counts_consistent");
    }
    #[kani::proof] #[kani::unwind(6)] fn legs_closed_0() { legs_match(0, true) }
    #[kani::proof] #[kani::unwind(6)] fn legs_closed_2() { legs_match(2, true) }
    #[kani::proof] #[kani::unwind(6)] fn legs_open_0() { legs_match(0, false) }
    #[kani::proof] #[kani::unwind(6)] fn legs_open_1() { legs_match(1, false) }
    #[kani::proof] #[kani::unwind(7)] fn legs_open_3() { legs_match(3, false) }

    /// index / index_last / job_activities agree with the activity list (jobs may own several activities);
    /// a deep copy has the same view and is independent of the original
    #[kani::proof] #[kani::unwind(7)]
    fn lookup_and_deep_copy() {
        let jobs: [u8; 3] = [kani::any(), kani::any(), kani::any()];
        kani::assume(jobs[0] < 3 && jobs[1] < 3 && jobs[2] < 3);
        let t = tour(3, true, jobs);
        let q: u8 = kani::any(); kani::assume(q < 3);
        let (mut first, mut last, mut cnt) = (None, None, 0);
        let mut k = 0;
        while k < 3 { if jobs[k] == q { if first.is_none() { first = Some(k + 1); } last = Some(k + 1); cnt += 1; } k += 1; }
        assert!(t.index(&Job(q)) == first, "post_index_is_first_occurrence");
        assert!(t.index_last(&Job(q)) == last, "post_index_last_is_last_occurrence");
        assert!(t.job_activities(&Job(q)).count() == cnt, "post_job_activities_are_exactly_the_jobs_activities");
        assert!(t.contains(&Job(q)) == (cnt > 0) && t.has_job(&Job(q)) == (cnt > 0), "post_job_set_equals_jobs_of_activities");
        let mut c = t.deep_copy();
        assert!(c.total() == t.total() && c.job_count() == t.job_count(), "post_deep_copy_same_view");
        // (mutating the copy by an insertion: Tour::remove on a symbolic job does not finish in CBMC - its contract is U14a)
        c.insert_last(Activity { tag: 7, job: Some(5) });
        assert!(t.total() == 5 && !t.contains(&Job(5)), "post_deep_copy_is_independent");
        assert!(c.total() == 6 && c.contains(&Job(5)), "post_copy_mutated_alone");
    }
}
