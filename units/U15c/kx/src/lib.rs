// U15c – the repository's rayon wrappers (rosomaxa utils/parallel.rs, verbatim) against a sequential CONTRACT stand-in of rayon, and
// PositionInsertionEvaluator::evaluate_all (selectors.rs, verbatim) on top of them against the contracts of the fold step (U15b) and
// the reducer (U15a): every (route, job) pair is evaluated exactly once and the best insertion wins, wherever the work is split
#![allow(dead_code, unused_variables, unused_imports)]
#[path = "@VERIF_ENV@/eager.rs"]
pub mod verif_eager;
#[path = "@VERIF_ENV@/rayon_seq.rs"]
pub mod rayon;
use rayon::prelude::*;

// ------------------------------------------------------------------ environment (assumed)
pub struct Job { pub id: usize }
pub struct RouteContext { pub id: usize }
pub struct GoalContext;
pub struct Problem { pub goal: GoalContext }
/// cost[route][job]: what evaluating that pair yields (None: infeasible)
pub struct InsertionContext { pub problem: Problem, pub cost: [[Option<u8>; 3]; 2], pub evaluated: std::cell::RefCell<[[u8; 3]; 2]> }
unsafe impl Sync for InsertionContext {}
pub struct LegSelection;
#[derive(Clone, Copy)] pub enum InsertionPosition { Any }
#[derive(Clone, Copy, PartialEq, Debug)] pub enum InsertionResult { Success { cost: u8, route: usize, job: usize }, Failure }
impl InsertionResult { pub fn make_failure() -> Self { InsertionResult::Failure } }
fn better(a: InsertionResult, b: InsertionResult) -> InsertionResult {
    match (a, b) { (InsertionResult::Success { cost: x, .. }, InsertionResult::Success { cost: y, .. }) => if y < x { b } else { a }, (InsertionResult::Failure, _) => b, _ => a }
}
pub trait ResultSelector: Send + Sync { fn select_insertion(&self, ctx: &InsertionContext, left: InsertionResult, right: InsertionResult) -> InsertionResult; }
pub struct EvaluationContext<'a> { pub goal: &'a GoalContext, pub job: &'a Job, pub leg_selection: &'a LegSelection, pub result_selector: &'a (dyn ResultSelector) }
/// CONTRACT of the fold step (U15b): the accumulated alternative or this pair's evaluation, whichever is better; counts the call
pub fn eval_job_insertion_in_route(insertion_ctx: &InsertionContext, eval_ctx: &EvaluationContext, route_ctx: &&RouteContext, _: InsertionPosition, alternative: InsertionResult) -> InsertionResult {
    insertion_ctx.evaluated.borrow_mut()[route_ctx.id][eval_ctx.job.id] += 1;
    match insertion_ctx.cost[route_ctx.id][eval_ctx.job.id] { Some(cost) => better(alternative, InsertionResult::Success { cost, route: route_ctx.id, job: eval_ctx.job.id }), None => alternative }
}
pub trait InsertionEvaluator { fn evaluate_all(&self, insertion_ctx: &InsertionContext, jobs: &[&Job], routes: &[&RouteContext], leg_selection: &LegSelection, result_selector: &(dyn ResultSelector)) -> InsertionResult; }
pub struct PositionInsertionEvaluator { pub insertion_position: InsertionPosition }

// ------------------------------------------------------------------ code under contract (verbatim from /repo)
//@extract rosomaxa/src/utils/parallel.rs :: mod actual#1/fn cartesian_product
//@end
//@extract rosomaxa/src/utils/parallel.rs :: mod actual#1/fn parallel_collect
//@end
//@extract rosomaxa/src/utils/parallel.rs :: mod actual#1/fn parallel_into_collect
//@end
//@extract rosomaxa/src/utils/parallel.rs :: mod actual#1/fn map_reduce
//@end
//@extract rosomaxa/src/utils/parallel.rs :: mod actual#1/fn fold_reduce
//@end
//@extract rosomaxa/src/utils/parallel.rs :: mod actual#1/fn parallel_foreach_mut
//@end
impl InsertionEvaluator for PositionInsertionEvaluator {
//@extract vrp-core/src/construction/heuristics/selectors.rs :: impl InsertionEvaluator for PositionInsertionEvaluator/fn evaluate_all
//@end
}

#[cfg(kani)]
mod h {
    use super::*;
    /// CONTRACT of the reducer (U15a): one of its arguments, of minimal cost
    struct Best; impl ResultSelector for Best { fn select_insertion(&self, _: &InsertionContext, left: InsertionResult, right: InsertionResult) -> InsertionResult { better(left, right) } }
    fn any_cost() -> Option<u8> { if kani::any() { let c: u8 = kani::any(); kani::assume(c < 8); Some(c) } else { None } }

    /// C15: 2 routes x 3 jobs, any feasibility/cost table, any split point of the work: every pair is evaluated exactly once and the
    /// result is a feasible pair of minimal cost (Failure only if no pair is feasible)
    #[kani::proof] #[kani::unwind(10)]
    fn evaluate_all_is_the_minimum_over_all_pairs_whatever_the_split() {
        let cost = [[any_cost(), any_cost(), any_cost()], [any_cost(), any_cost(), any_cost()]];
        let ic = InsertionContext { problem: Problem { goal: GoalContext }, cost, evaluated: std::cell::RefCell::new([[0; 3]; 2]) };
        let (j, r) = ([Job { id: 0 }, Job { id: 1 }, Job { id: 2 }], [RouteContext { id: 0 }, RouteContext { id: 1 }]);
        let res = PositionInsertionEvaluator { insertion_position: InsertionPosition::Any }.evaluate_all(&ic, &[&j[0], &j[1], &j[2]], &[&r[0], &r[1]], &LegSelection, &Best);
        let mut min: Option<u8> = None;
        let (mut a, mut b) = (0, 0);
        while a < 2 { b = 0; while b < 3 {
            assert!(ic.evaluated.borrow()[a][b] == 1, "post_every_route_job_pair_evaluated_exactly_once");
            if let Some(c) = cost[a][b] { min = Some(match min { Some(m) if m <= c => m, _ => c }); }
            b += 1; } a += 1; }
        match res {
            InsertionResult::Failure => assert!(min.is_none(), "post_failure_only_if_no_pair_is_feasible"),
            InsertionResult::Success { cost: c, route, job } => { assert!(Some(c) == min, "post_result_has_minimal_cost_over_all_pairs"); assert!(cost[route][job] == Some(c), "post_result_is_one_of_the_evaluations"); }
        }
        kani::cover!(min.is_none()); kani::cover!(matches!(res, InsertionResult::Success { route: 1, job: 2, .. }));
    }
    /// longer inner lists (sizes that no thread count 1..4 divides evenly): still every pair exactly once
    fn product_1xn<const M: usize>() {
        let a = [0usize];
        let b: [usize; M] = core::array::from_fn(|i| i);
        let mut seen = [0u8; M];
        for (x, y) in cartesian_product(&a, &b).into_par_iter().0 { seen[*y] += 1; }
        let mut j = 0;
        while j < M { assert!(seen[j] == 1, "post_cartesian_product_yields_every_pair_once"); j += 1; }
    }
    #[kani::proof] #[kani::unwind(10)] fn cartesian_product_1x5_every_pair_once() { product_1xn::<5>() }
    #[kani::proof] #[kani::unwind(10)] fn cartesian_product_1x7_every_pair_once() { product_1xn::<7>() }
    /// the wrappers on their own: cartesian_product yields every pair once; collect keeps order; map_reduce / fold_reduce visit every item once
    #[kani::proof] #[kani::unwind(10)]
    fn wrappers_visit_every_item_exactly_once() {
        let (a, b) = ([0usize, 1], [0usize, 1, 2]);
        let mut seen = [[0u8; 3]; 2];
        for (x, y) in cartesian_product(&a, &b).into_par_iter().0 { seen[*x][*y] += 1; }
        let (mut i, mut j) = (0, 0);
        while i < 2 { j = 0; while j < 3 { assert!(seen[i][j] == 1, "post_cartesian_product_yields_every_pair_once"); j += 1; } i += 1; }
        let v: [u8; 3] = kani::any();
        let doubled: Vec<u16> = parallel_collect(&v[..], |x| *x as u16 * 2);
        assert!(doubled.len() == 3 && doubled[0] == v[0] as u16 * 2 && doubled[1] == v[1] as u16 * 2 && doubled[2] == v[2] as u16 * 2, "post_parallel_collect_maps_every_item_in_order");
        let owned: Vec<u16> = parallel_into_collect(vec![v[0], v[1], v[2]], |x| x as u16 + 1);
        assert!(owned.len() == 3 && owned[0] == v[0] as u16 + 1 && owned[2] == v[2] as u16 + 1, "post_parallel_into_collect_maps_every_item_in_order");
        let sum = v[0] as u16 + v[1] as u16 + v[2] as u16;
        assert!(map_reduce(&v[..], |x| *x as u16, || 0u16, |l, r| l + r) == sum, "post_map_reduce_combines_every_item_once");
        assert!(fold_reduce(&v[..], || 0u16, |acc, x| acc + *x as u16, |l, r| l + r) == sum, "post_fold_reduce_combines_every_item_once_whatever_the_split");
        let mut w = [v[0] as u16, v[1] as u16, v[2] as u16];
        parallel_foreach_mut(&mut w, |x| *x += 1);
        assert!(w[0] == v[0] as u16 + 1 && w[1] == v[1] as u16 + 1 && w[2] == v[2] as u16 + 1, "post_foreach_mut_touches_every_item_once");
    }
}
