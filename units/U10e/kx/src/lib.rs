// U10e – routing validation rules E1500..E1505 (validation/routing.rs, verbatim) and the shared get_duplicates helper
// (validation/common.rs, verbatim; also behind E1100, E1300, E1301) against the documented rules
#![allow(dead_code, unused_macros, unused_variables, unused_imports)]
macro_rules! format { ($($t:tt)*) => { () } } // message text dropped (the error CODE is what the property speaks about)
const VERIF_MAP_CAP: usize = 4;
#[path = "@VERIF_ENV@/collections_fixed_n.rs"]
mod verif_env;
use verif_env::HashSet;
#[path = "@VERIF_ENV@/strings.rs"]
mod verif_strings;
use verif_strings::String;
const VERIF_VEC_CAP: usize = 4;
#[path = "@VERIF_ENV@/vec_fixed.rs"]
mod verif_vec;
use verif_vec::Vec;

// ------------------------------------------------------------------ environment (assumed)
pub type Float = f64;
#[derive(Clone, Copy, Default)] pub struct MatrixProfile { pub name: String }
#[derive(Clone, Copy, Default)] pub struct VehicleProfile { pub matrix: String }
#[derive(Clone, Copy, Default)] pub struct VehicleType { pub profile: VehicleProfile }
pub enum Clustering { Vicinity { profile: VehicleProfile, threshold: u8 } }
pub struct Fleet { pub profiles: Vec<MatrixProfile>, pub vehicles: Vec<VehicleType> }
pub struct Plan { pub clustering: Option<Clustering> }
pub struct Problem { pub fleet: Fleet, pub plan: Plan }
/// a list of which only the length is read
#[derive(Clone, Copy, Default)] pub struct Len(pub usize);
impl Len { pub fn len(&self) -> usize { self.0 } }
#[derive(Clone, Copy, Default)] pub struct Matrix { pub distances: Len }
pub struct CoordIndex { pub max_matrix_index: usize }
impl CoordIndex { pub(crate) fn max_matrix_index(&self) -> usize { self.max_matrix_index } }
pub struct ValidationContext<'a> { pub problem: &'a Problem, pub matrices: Option<&'a Vec<Matrix>>, pub coord_index: &'a CoordIndex }
pub struct FormatError { pub code: [u8; 5] }
impl FormatError { pub fn new<A, B>(code: std::string::String, _cause: A, _action: B) -> Self { let b = code.as_bytes(); Self { code: [b[0], b[1], b[2], b[3], b[4]] } } }

// ------------------------------------------------------------------ code under contract (verbatim from /repo)
//@extract vrp-pragmatic/src/validation/common.rs :: fn get_duplicates
//@end
//@extract vrp-pragmatic/src/validation/routing.rs :: fn check_e1500_duplicated_profiles
//@end
//@extract vrp-pragmatic/src/validation/routing.rs :: fn check_e1501_empty_profiles
//@end
//@extract vrp-pragmatic/src/validation/routing.rs :: fn check_e1502_no_location_type_mix
//@end
//@extract vrp-pragmatic/src/validation/routing.rs :: fn check_e1503_no_matrix_when_indices_used
//@end
//@extract vrp-pragmatic/src/validation/routing.rs :: fn check_e1504_index_size_mismatch
//@end
//@extract vrp-pragmatic/src/validation/routing.rs :: fn check_e1505_profiles_exist
//@end

#[cfg(kani)]
mod h {
    use super::*;
    fn name() -> String { let i: u8 = kani::any(); kani::assume(i >= 4 && i <= 6); String(i) } // job1, job2, vehicle_1 as names
    fn expect(r: Result<(), FormatError>, broken: bool, c: &[u8; 5]) {
        assert!(r.is_err() == broken, "post_rule_rejects_exactly_when_the_documented_rule_is_broken");
        if let Err(e) = &r { assert!(e.code == *c, "post_reported_code_names_the_rule"); }
        kani::cover!(broken); kani::cover!(!broken);
    }
    fn problem<const P: usize, const V: usize>(clustering: Option<Clustering>) -> Problem {
        let mut profiles = Vec::new(); let mut i = 0; while i < P { profiles.push(MatrixProfile { name: name() }); i += 1; }
        let mut vehicles = Vec::new(); let mut i = 0; while i < V { vehicles.push(VehicleType { profile: VehicleProfile { matrix: name() } }); i += 1; }
        Problem { fleet: Fleet { profiles, vehicles }, plan: Plan { clustering } }
    }

    /// get_duplicates: Some(the ids that occur more than once, each once, sorted) / None when all ids are distinct
    #[kani::proof] #[kani::unwind(12)]
    fn duplicates_are_exactly_the_repeated_ids() {
        let ids = [name(), name(), name()];
        let r = get_duplicates(ids.iter());
        let distinct = ids[0] != ids[1] && ids[0] != ids[2] && ids[1] != ids[2];
        assert!(r.is_none() == distinct, "post_duplicates_reported_iff_some_id_repeats");
        if let Some(d) = r {
            assert!(d.len() >= 1, "post_reported_duplicates_not_empty");
            let mut k = 0; while k < d.len() {
                let n = ids.iter().filter(|x| **x == d[k]).count();
                assert!(n >= 2, "post_every_reported_id_really_repeats");
                if k > 0 { assert!(d[k - 1] < d[k], "post_reported_ids_distinct_and_sorted"); }
                k += 1; }
        }
        kani::cover!(distinct); kani::cover!(ids[0] == ids[2] && ids[0] != ids[1]);
    }

    /// E1500: two profiles with the same name
    #[kani::proof] #[kani::unwind(12)]
    fn e1500_profile_names_are_unique() {
        let p = problem::<2, 0>(None); // (two profiles: the three-id case of the shared helper is the harness above)
        let ci = CoordIndex { max_matrix_index: 0 };
        let n = |i: usize| p.fleet.profiles[i].name;
        let broken = n(0) == n(1);
        expect(check_e1500_duplicated_profiles(&ValidationContext { problem: &p, matrices: None, coord_index: &ci }), broken, b"E1500");
    }

    /// E1501: no profile at all
    fn e1501<const P: usize>() {
        let p = problem::<P, 1>(None);
        let ci = CoordIndex { max_matrix_index: 0 };
        let r = check_e1501_empty_profiles(&ValidationContext { problem: &p, matrices: None, coord_index: &ci });
        assert!(r.is_err() == (P == 0), "post_rule_rejects_exactly_when_the_documented_rule_is_broken");
        if let Err(e) = &r { assert!(e.code == *b"E1501", "post_reported_code_names_the_rule"); }
    }
    #[kani::proof] #[kani::unwind(12)] fn e1501_rejects_an_empty_profile_list() { e1501::<0>() }
    #[kani::proof] #[kani::unwind(12)] fn e1501_accepts_profiles() { e1501::<2>() }

    /// E1502 / E1503: coordinates mixed with indices; indices without a routing matrix
    #[kani::proof] #[kani::unwind(12)]
    fn e1502_e1503_location_types() {
        let p = problem::<1, 1>(None);
        let ci = CoordIndex { max_matrix_index: 0 };
        let (coords, indices): (bool, bool) = (kani::any(), kani::any());
        let mut ms = Vec::new();
        let n_matrices: u8 = kani::any(); kani::assume(n_matrices <= 2);
        let mut i = 0; while i < n_matrices { ms.push(Matrix { distances: Len(4) }); i += 1; }
        let given: bool = kani::any();
        let ctx = ValidationContext { problem: &p, matrices: if given { Some(&ms) } else { None }, coord_index: &ci };
        expect(check_e1502_no_location_type_mix(&ctx, (coords, indices)), coords && indices, b"E1502");
        let no_matrix = !given || n_matrices == 0;
        let r = check_e1503_no_matrix_when_indices_used(&ctx, (coords, indices));
        assert!(r.is_err() == (indices && no_matrix), "post_rule_rejects_exactly_when_the_documented_rule_is_broken");
        if let Err(e) = &r { assert!(e.code == *b"E1503", "post_reported_code_names_the_rule"); }
        kani::cover!(indices && no_matrix); kani::cover!(indices && !no_matrix);
    }

    /// E1504: a location index outside the supplied matrix is rejected, an exactly fitting matrix is accepted, no matrix: nothing to check
    /// (square matrices of 1..5 locations; the documentation does not say what happens when the matrix is larger than needed)
    #[kani::proof] #[kani::unwind(12)]
    fn e1504_location_indices_fit_the_matrix() {
        let p = problem::<1, 1>(None);
        let size: usize = kani::any(); kani::assume(size >= 1 && size <= 5);
        let max_index: usize = kani::any(); kani::assume(max_index <= 8);
        let ci = CoordIndex { max_matrix_index: max_index };
        let mut ms = Vec::new(); ms.push(Matrix { distances: Len(size * size) });
        let given: bool = kani::any();
        let r = check_e1504_index_size_mismatch(&ValidationContext { problem: &p, matrices: if given { Some(&ms) } else { None }, coord_index: &ci });
        if !given { assert!(r.is_ok(), "post_nothing_to_check_without_matrix"); }
        else if max_index >= size { assert!(r.is_err(), "post_index_outside_matrix_is_rejected"); }
        else if max_index + 1 == size { assert!(r.is_ok(), "post_exactly_fitting_matrix_is_accepted"); }
        if let Err(e) = &r { assert!(e.code == *b"E1504", "post_reported_code_names_the_rule"); }
        kani::cover!(given && max_index >= size); kani::cover!(given && max_index + 1 == size);
    }

    /// E1505: a vehicle's or the vicinity clustering's matrix profile is not among fleet.profiles
    fn e1505(with_clustering: bool) {
        let cl = if with_clustering { Some(Clustering::Vicinity { profile: VehicleProfile { matrix: name() }, threshold: 0 }) } else { None };
        let clp = cl.as_ref().map(|c| match c { Clustering::Vicinity { profile, .. } => profile.matrix });
        let p = problem::<2, 2>(cl);
        let ci = CoordIndex { max_matrix_index: 0 };
        let known = |m: String| p.fleet.profiles.iter().any(|x| x.name == m);
        let broken = p.fleet.vehicles.iter().any(|v| !known(v.profile.matrix)) || clp.map_or(false, |m| !known(m));
        expect(check_e1505_profiles_exist(&ValidationContext { problem: &p, matrices: None, coord_index: &ci }), broken, b"E1505");
    }
    #[kani::proof] #[kani::unwind(12)] fn e1505_vehicle_profiles_are_defined() { e1505(false) }
    #[kani::proof] #[kani::unwind(12)] fn e1505_clustering_profile_is_defined() { e1505(true) }
}
