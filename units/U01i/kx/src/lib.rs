// U01i – tour-order gate and objective (tour_order.rs, verbatim): TourOrderConstraint::evaluate, TourOrderObjective::estimate/fitness,
// TourOrderState::accept_solution_state, evaluate_result, get_violations, compare_order_results
#![allow(dead_code, unused_variables, unused_imports)]
use std::cmp::Ordering;
use std::ops::ControlFlow;
use std::sync::Arc;

// ------------------------------------------------------------------ environment (assumed)
pub type Float = f64;
pub type Cost = f64;
#[derive(Clone, Copy, Debug, PartialEq, Eq)] pub struct ViolationCode(pub i32);
#[derive(Clone, Debug, PartialEq, Eq)] pub struct ConstraintViolation { pub code: ViolationCode, pub stopped: bool }
pub struct Actor;
/// a single job carries what the user's order function answers for it
pub struct Single { pub order: OrderResult }
pub struct Activity { pub job: Option<Arc<Single>> }
pub struct Tour { pub activities: Vec<Activity> }
impl Tour {
    pub fn get(&self, index: usize) -> Option<&Activity> { self.activities.get(index) }
    pub fn total(&self) -> usize { self.activities.len() }
    pub fn all_activities(&self) -> std::slice::Iter<Activity> { self.activities.iter() }
}
pub struct Route { pub actor: Arc<Actor>, pub tour: Tour }
/// `stale`: the real context's flag (set by every mutable access, cleared by accept_route_state; unit U05a). The set of tours
/// can change without any remaining route being stale (a whole route removed), so the flag says nothing about solution-level caches
pub struct RouteContext { pub route: Route, pub stale: bool }
impl RouteContext { pub fn route(&self) -> &Route { &self.route } pub fn is_stale(&self) -> bool { self.stale } }
#[derive(Default)] pub struct SolutionState { pub tour_order_violations: Option<usize> }
impl SolutionState {
    pub fn get_tour_order_violations(&self) -> Option<&usize> { self.tour_order_violations.as_ref() }
    pub fn set_tour_order_violations(&mut self, v: usize) { self.tour_order_violations = Some(v); }
}
pub struct SolutionContext { pub routes: Vec<RouteContext>, pub state: SolutionState }
pub struct InsertionContext { pub solution: SolutionContext }
pub struct Job;
pub struct ActivityContext<'a> { pub index: usize, pub prev: &'a Activity, pub target: &'a Activity, pub next: Option<&'a Activity> }
pub enum MoveContext<'a> {
    Route { solution_ctx: &'a SolutionContext, route_ctx: &'a RouteContext, job: &'a Job },
    Activity { solution_ctx: &'a SolutionContext, route_ctx: &'a RouteContext, activity_ctx: &'a ActivityContext<'a> },
}
pub trait FeatureConstraint { fn evaluate(&self, move_ctx: &MoveContext<'_>) -> Option<ConstraintViolation>; }
pub trait FeatureObjective { fn fitness(&self, solution: &InsertionContext) -> Cost; fn estimate(&self, move_ctx: &MoveContext<'_>) -> Cost; }
pub trait FeatureState {
    fn accept_insertion(&self, solution_ctx: &mut SolutionContext, route_index: usize, job: &Job);
    fn accept_route_state(&self, route_ctx: &mut RouteContext);
    fn accept_solution_state(&self, solution_ctx: &mut SolutionContext);
}

// ------------------------------------------------------------------ code under contract (verbatim from /repo)
//@extract vrp-core/src/utils/types.rs :: enum Either
//@end
//@extract rosomaxa/src/utils/types.rs :: trait UnwrapValue
//@end
//@extract rosomaxa/src/utils/types.rs :: impl<T> UnwrapValue for ControlFlow<T, T>
//@end
//@extract vrp-core/src/construction/features/tour_order.rs :: enum OrderResult
//@end
//@extract vrp-core/src/construction/features/tour_order.rs :: type ActorTourOrderFn
//@end
//@extract vrp-core/src/construction/features/tour_order.rs :: type SingleTourOrderFn
//@end
//@extract vrp-core/src/construction/features/tour_order.rs :: type TourOrderFn
//@end
//@extract vrp-core/src/construction/features/tour_order.rs :: struct TourOrderConstraint
//@end
impl FeatureConstraint for TourOrderConstraint {
//@extract vrp-core/src/construction/features/tour_order.rs :: impl FeatureConstraint for TourOrderConstraint/fn evaluate
//@end
}
//@extract vrp-core/src/construction/features/tour_order.rs :: struct TourOrderObjective
//@end
//@extract vrp-core/src/construction/features/tour_order.rs :: impl FeatureObjective for TourOrderObjective
//@end
//@extract vrp-core/src/construction/features/tour_order.rs :: struct TourOrderState
//@end
//@extract vrp-core/src/construction/features/tour_order.rs :: impl FeatureState for TourOrderState
//@end
//@extract vrp-core/src/construction/features/tour_order.rs :: fn evaluate_result
//@end
//@extract vrp-core/src/construction/features/tour_order.rs :: fn get_violations
//@end
//@extract vrp-core/src/construction/features/tour_order.rs :: fn get_single
//@end
//@extract vrp-core/src/construction/features/tour_order.rs :: fn compare_order_results
//@end

#[cfg(kani)]
mod h {
    use super::*;
    const CODE: ViolationCode = ViolationCode(9);
    /// order answers: a value 0..3, "no value" (sorted behind every value) or "ignore me"
    fn any_order() -> OrderResult { let k: u8 = kani::any(); kani::assume(k < 6); match k { 4 => OrderResult::Default, 5 => OrderResult::Ignored, v => OrderResult::Value(v as Float) } }
    /// the documented meaning, written independently: rank of an answer; Ignored compares equal to everything
    fn out_of_order(first: OrderResult, second: OrderResult) -> bool {
        match (first, second) {
            (OrderResult::Ignored, _) | (_, OrderResult::Ignored) => false,
            (OrderResult::Value(a), OrderResult::Value(b)) => a > b,
            (OrderResult::Default, OrderResult::Value(_)) => true,
            _ => false,
        }
    }
    fn order_fn() -> TourOrderFn { Either::Left(Arc::new(|s: &Single| s.order)) }
    fn act(o: Option<OrderResult>) -> Activity { Activity { job: o.map(|order| Arc::new(Single { order })) } }
    fn route(o1: OrderResult, o2: OrderResult) -> RouteContext { RouteContext { route: Route { actor: Arc::new(Actor), tour: Tour { activities: vec![act(None), act(Some(o1)), act(Some(o2)), act(None)] } }, stale: false } }

    /// C01 (tour order as hard constraint): an activity is let in at a leg exactly when nothing in front of it has to come later and
    /// nothing behind it has to come earlier; a conflict in front stops the search of this tour, one behind only skips the leg
    #[kani::proof] #[kani::unwind(7)]
    fn order_gate_exact() {
        let (o1, o2, t) = (any_order(), any_order(), any_order());
        let idx: usize = kani::any(); kani::assume(idx <= 2);
        let rc = route(o1, o2);
        let target = act(Some(t));
        let (prev, next) = (act(None), act(None));      // the gate looks activities up in the tour, not in the context
        let actx = ActivityContext { index: idx, prev: &prev, target: &target, next: Some(&next) };
        let sc = SolutionContext { routes: vec![], state: SolutionState::default() };
        let r = TourOrderConstraint { code: CODE, order_fn: order_fn() }.evaluate(&MoveContext::Activity { solution_ctx: &sc, route_ctx: &rc, activity_ctx: &actx });
        let tour = [OrderResult::Ignored, o1, o2, OrderResult::Ignored];
        let mut front = false; let mut behind = false;
        let mut k = 0;
        while k < 4 { if k <= idx { front = front || out_of_order(tour[k], t); } else { behind = behind || out_of_order(t, tour[k]); } k += 1; }
        if front { assert!(r == Some(ConstraintViolation { code: CODE, stopped: true }), "post_conflict_in_front_stops"); }
        else if behind { assert!(r == Some(ConstraintViolation { code: CODE, stopped: false }), "post_conflict_behind_skips"); }
        else { assert!(r.is_none(), "post_no_conflict_is_accepted"); }
        kani::cover!(front); kani::cover!(!front && behind); kani::cover!(!front && !behind);
    }
    /// the job's route-level evaluation is never refused by this gate
    #[kani::proof] #[kani::unwind(5)]
    fn order_gate_route_level_passes() {
        let rc = route(any_order(), any_order());
        let sc = SolutionContext { routes: vec![], state: SolutionState::default() };
        assert!(TourOrderConstraint { code: CODE, order_fn: order_fn() }.evaluate(&MoveContext::Route { solution_ctx: &sc, route_ctx: &rc, job: &Job }).is_none(), "post_route_level_passes");
    }
    /// C05/C20 (tour order as objective): the cached number of violations equals recomputation (adjacent inversions among the
    /// activities that are not ignored); fitness reads the cache, and recomputes when there is none
    #[kani::proof] #[kani::unwind(7)]
    fn order_violations_cached_equals_recomputed() {
        let (o1, o2, o3) = (any_order(), any_order(), any_order());
        let rc = RouteContext { route: Route { actor: Arc::new(Actor), tour: Tour { activities: vec![act(None), act(Some(o1)), act(Some(o2)), act(Some(o3)), act(None)] } }, stale: kani::any() };
        let garbage: usize = kani::any();
        let mut ic = InsertionContext { solution: SolutionContext { routes: vec![rc], state: SolutionState { tour_order_violations: if kani::any() { Some(garbage) } else { None } } } };
        // independent count: walk the non-ignored answers, compare neighbours
        let all = [o1, o2, o3];
        let mut expected = 0usize; let mut last: Option<OrderResult> = None;
        let mut k = 0;
        while k < 3 { if !matches!(all[k], OrderResult::Ignored) { if let Some(p) = last { if out_of_order(p, all[k]) { expected += 1; } } last = Some(all[k]); } k += 1; }
        let uncached = TourOrderObjective { order_fn: order_fn() };
        if ic.solution.state.tour_order_violations.is_none() { assert!(uncached.fitness(&ic) == expected as Float, "post_fitness_without_cache_recomputes"); }
        TourOrderState { order_fn: order_fn() }.accept_solution_state(&mut ic.solution);
        assert!(ic.solution.state.tour_order_violations == Some(expected), "post_cached_violations_equal_recomputation");
        assert!(uncached.fitness(&ic) == expected as Float, "post_fitness_reads_the_count");
        kani::cover!(expected == 2);
    }
}
