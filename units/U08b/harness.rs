// U08b – Elitism population: inductive step from an arbitrary sorted, size-bounded state (KO, child module of elitism.rs)
use super::*;
use crate::utils::RandomGen;

struct Obj;
#[derive(Clone, Copy, PartialEq, Eq)]
struct Sol { id: u8, key: i8 }
impl HeuristicSolution for Sol {
    fn fitness(&self) -> impl Iterator<Item = Float> { std::iter::once(self.key as Float) }
    fn deep_copy(&self) -> Self { *self }
}
impl HeuristicObjective for Obj {
    type Solution = Sol;
    fn total_order(&self, a: &Sol, b: &Sol) -> Ordering { a.key.cmp(&b.key) }
}
impl Alternative for Obj { fn maybe_new(&self, _: &(dyn Random)) -> Self { Obj } }

/// random source: every draw is an arbitrary value of the documented range
struct Rnd;
impl Random for Rnd {
    fn uniform_int(&self, min: i32, max: i32) -> i32 { let v: i32 = kani::any(); kani::assume(v >= min && v <= max); v }
    fn uniform_real(&self, min: Float, _max: Float) -> Float { min }
    fn is_head_not_tails(&self) -> bool { kani::any() }
    fn is_hit(&self, _: Float) -> bool { kani::any() }
    fn weighted(&self, _: &[usize]) -> usize { 0 }
    fn get_rng(&self) -> RandomGen { unimplemented!() }
}

const IDS: usize = 5;

/// one `add_all` / `add` step: pre-state of constant length P (arbitrary, sorted, len <= max), batch of constant length B,
/// arbitrary (symbolic) deduplication predicate
fn step<const P: usize, const B: usize>(use_add: bool) {
    let pre: [Sol; P] = core::array::from_fn(|i| Sol { id: i as u8, key: kani::any() });
    let batch: [Sol; B] = core::array::from_fn(|i| Sol { id: (P + i) as u8, key: kani::any() });
    let max_size: usize = kani::any();
    kani::assume(max_size >= P.max(1) && max_size <= 4);
    let table: [[bool; IDS]; IDS] = kani::any();
    let mut e = Elitism::new_with_dedup(Arc::new(Obj), Arc::new(Rnd), max_size, 2,
        Box::new(move |_, a: &Sol, b: &Sol| table[a.id as usize][b.id as usize]));
    let mut i = 1;
    while i < P { kani::assume(pre[i - 1].key <= pre[i].key); i += 1; }
    e.individuals = pre.to_vec();

    let improved = if use_add { e.add(batch[0]) } else { e.add_all(batch.to_vec()) };

    let n = e.individuals.len();
    assert!(n >= 1, "post_population_non_empty");
    assert!(n <= max_size, "post_size_within_max");
    let head = e.individuals[0];
    let mut i = 0;
    while i < P { assert!(head.key <= pre[i].key, "post_head_not_worse_than_any_previous"); i += 1; }
    let mut i = 0;
    while i < B { assert!(head.key <= batch[i].key, "post_head_not_worse_than_any_offered"); i += 1; }
    let mut i = 1;
    while i < n { assert!(e.individuals[i - 1].key <= e.individuals[i].key, "post_ranking_sorted"); i += 1; }
    let mut i = 0;
    while i < n {
        let v = e.individuals[i];
        assert!(pre.contains(&v) || batch.contains(&v), "post_no_invention");
        let mut j = 0;
        while j < i { assert!(e.individuals[j].id != v.id, "post_no_duplicate_member"); j += 1; }
        i += 1;
    }
    assert!(improved == (P == 0 || head.key != pre[0].key), "post_reports_improvement");
    kani::cover!(n == max_size);
    kani::cover!(improved);
    kani::cover!(P == 0 || !improved);   // (from an empty population every addition is an improvement)
}

macro_rules! steps {
    ($($name:ident: $p:literal, $b:literal, $add:literal;)*) => { $(
        #[kani::proof]
        #[kani::unwind(8)]
        fn $name() { step::<$p, $b>($add); }
    )* };
}
steps! {
    step_0_1_add: 0, 1, true;
    step_1_1_add: 1, 1, true;
    step_2_1_add: 2, 1, true;
    step_3_1_add: 3, 1, true;
    step_0_2: 0, 2, false;
    step_1_2: 1, 2, false;
    step_2_2: 2, 2, false;
    step_3_2: 3, 2, false;
}

/// observers on an arbitrary population of constant length P: size, ranked, select
fn observers<const P: usize>() {
    let pre: [Sol; P] = core::array::from_fn(|i| Sol { id: i as u8, key: kani::any() });
    let sel: usize = kani::any();
    kani::assume(sel >= 1 && sel <= 3);
    let mut e = Elitism::new_with_dedup(Arc::new(Obj), Arc::new(Rnd), 4, sel, Box::new(|_, _: &Sol, _: &Sol| false));
    e.individuals = pre.to_vec();
    assert!(e.size() == P, "post_size");
    {
        let mut r = e.ranked();
        let mut i = 0;
        while i < P { assert!(r.next().copied() == Some(pre[i]), "post_ranked_is_the_ranking"); i += 1; }
        assert!(r.next().is_none(), "post_ranked_is_the_ranking");
    }
    let mut s = e.select();
    if P == 0 {
        assert!(s.next().is_none(), "post_select_empty_population");
    } else {
        assert!(s.next().copied() == Some(pre[0]), "post_select_non_empty_and_starts_with_best");
        let mut cnt = 1;
        while let Some(x) = s.next() { assert!(pre.contains(x), "post_select_only_members"); cnt += 1; }
        assert!(cnt == sel, "post_select_count");
    }
    kani::cover!(sel == 3);
}
#[kani::proof] #[kani::unwind(6)] fn observers_0() { observers::<0>(); }
#[kani::proof] #[kani::unwind(6)] fn observers_1() { observers::<1>(); }
#[kani::proof] #[kani::unwind(6)] fn observers_3() { observers::<3>(); }

/// set_max_population_size(m >= 1) keeps the best-ranked prefix
#[kani::proof]
#[kani::unwind(8)]
fn shrink_keeps_prefix() {
    const P: usize = 3;
    let pre: [Sol; P] = core::array::from_fn(|i| Sol { id: i as u8, key: kani::any() });
    let mut e = Elitism::new_with_dedup(Arc::new(Obj), Arc::new(Rnd), 4, 2, Box::new(|_, _: &Sol, _: &Sol| false));
    e.individuals = pre.to_vec();
    let m: usize = kani::any();
    kani::assume(m >= 1 && m <= 5);
    e.set_max_population_size(m);
    let n = e.individuals.len();
    assert!(n == P.min(m), "post_shrink_size");
    let mut i = 0;
    while i < n { assert!(e.individuals[i] == pre[i], "post_shrink_keeps_prefix"); i += 1; }
    kani::cover!(m < P);
}

/// a batch larger than the capacity: the best of the batch must still end up first (capacity 1, batch of 2, no dedup;
/// constant shape so that the obligation stays cheap whatever adapters the batch goes through)
#[kani::proof]
#[kani::unwind(8)]
fn add_all_batch_exceeding_capacity_keeps_the_best() {
    let batch: [Sol; 2] = core::array::from_fn(|i| Sol { id: i as u8, key: kani::any() });
    let mut e = Elitism::new_with_dedup(Arc::new(Obj), Arc::new(Rnd), 1, 2, Box::new(|_, _: &Sol, _: &Sol| false));
    let improved = e.add_all(batch.to_vec());
    assert!(e.individuals.len() == 1, "post_size_within_max");
    assert!(e.individuals[0].key <= batch[0].key && e.individuals[0].key <= batch[1].key, "post_head_not_worse_than_any_offered");
    assert!(improved, "post_reports_improvement");
    kani::cover!(batch[1].key < batch[0].key);
}

/// empty batch is a no-op
#[kani::proof]
#[kani::unwind(8)]
fn add_all_empty_is_noop() {
    let pre: [Sol; 2] = core::array::from_fn(|i| Sol { id: i as u8, key: kani::any() });
    let mut e = Elitism::new_with_dedup(Arc::new(Obj), Arc::new(Rnd), 4, 2, Box::new(|_, _: &Sol, _: &Sol| kani::any()));
    e.individuals = pre.to_vec();
    assert!(!e.add_all(vec![]), "post_empty_batch_reports_no_improvement");
    assert!(e.individuals.len() == 2 && e.individuals[0] == pre[0] && e.individuals[1] == pre[1], "post_empty_batch_is_noop");
}
