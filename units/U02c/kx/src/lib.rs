// U02c – where jobs change bucket during construction: apply_insertion_success, apply_insertion_failure,
// finalize_unassigned, prepare/finalize_insertion_ctx (insertions.rs, verbatim)
#![allow(dead_code, unused_variables, unused_imports)]
#[path = "@VERIF_ENV@/collections.rs"]
mod verif_env;
use verif_env::HashMap;
use std::cell::RefCell;
use std::sync::Arc;

// ------------------------------------------------------------------ environment (assumed surroundings, NOT under proof)
#[derive(Clone, PartialEq, Eq, Debug)] pub struct Job(pub u8);
#[derive(Clone, Copy, PartialEq, Eq, Debug)] pub struct ViolationCode(pub i32);
/// real enum also has Detailed(Vec<(Arc<Actor>, ViolationCode)>), never constructed by the functions under contract
#[derive(Clone, Debug, PartialEq, Eq)] pub enum UnassignmentInfo { Unknown, Simple(ViolationCode) }
#[derive(PartialEq, Eq, Debug)] pub struct Actor { pub id: u8 }
pub struct Activity { pub tag: u8 }
/// tour mutators' own contracts are unit U14a; here a tour is the list of activity tags (depot tag 0 first)
pub struct Tour { pub acts: Vec<u8> }
impl Tour { pub fn insert_at(&mut self, a: Activity, index: usize) -> &mut Tour { self.acts.insert(index, a.tag); self } }
pub struct Route { pub actor: Arc<Actor>, pub tour: Tour }
pub struct RouteContext { pub route: Route, pub stale: bool }
impl RouteContext {
    pub fn route(&self) -> &Route { &self.route }
    pub fn route_mut(&mut self) -> &mut Route { self.stale = true; &mut self.route }
}
/// registry bookkeeping (get_route hands out the route of a still unused actor, once): its own contract is not decided (U14c disabled)
pub struct RegistryContext { pub unused: Vec<RouteContext> }
impl RegistryContext {
    pub fn get_route(&mut self, actor: &Actor) -> Option<RouteContext> { match self.unused.iter().position(|r| r.route.actor.as_ref() == actor) { Some(i) => Some(self.unused.remove(i)), None => None } }
}
pub struct SolutionContext { pub required: Vec<Job>, pub ignored: Vec<Job>, pub unassigned: HashMap<Job, UnassignmentInfo>, pub routes: Vec<RouteContext>, pub registry: RegistryContext }
/// goal hooks: recorded, with an arbitrary answer for notify_failure
pub struct GoalContext { pub log: RefCell<Vec<(u8, usize, u8)>>, pub failure_handled: bool }
impl GoalContext {
    pub fn accept_solution_state(&self, _: &mut SolutionContext) { self.log.borrow_mut().push((1, 0, 0)); }
    pub fn accept_insertion(&self, _: &mut SolutionContext, route_index: usize, job: &Job) { self.log.borrow_mut().push((2, route_index, job.0)); }
    pub fn notify_failure(&self, _: &mut SolutionContext, _: &[usize], _: &[Job]) -> bool { self.failure_handled }
}
pub struct Problem { pub goal: GoalContext }
pub struct InsertionContext { pub problem: Arc<Problem>, pub solution: SolutionContext }
pub struct InsertionSuccess { pub job: Job, pub activities: Vec<(Activity, usize)>, pub actor: Arc<Actor> }
pub struct InsertionFailure { pub constraint: ViolationCode, pub stopped: bool, pub job: Option<Job> }

// ------------------------------------------------------------------ code under contract (verbatim from /repo)
//@extract vrp-core/src/construction/heuristics/insertions.rs :: fn prepare_insertion_ctx
//@end
//@extract vrp-core/src/construction/heuristics/insertions.rs :: fn finalize_insertion_ctx
//@end
//@extract vrp-core/src/construction/heuristics/insertions.rs :: fn apply_insertion_success
//@end
//@extract vrp-core/src/construction/heuristics/insertions.rs :: fn apply_insertion_failure
//@end
//@extract vrp-core/src/construction/heuristics/insertions.rs :: fn finalize_unassigned
//@end

// ------------------------------------------------------------------ contract harnesses
#[cfg(kani)]
mod h {
    use super::*;
    fn route(id: u8, acts: Vec<u8>) -> RouteContext { RouteContext { route: Route { actor: Arc::new(Actor { id }), tour: Tour { acts } }, stale: false } }
    fn ctx(required: Vec<Job>, unassigned: HashMap<Job, UnassignmentInfo>, routes: Vec<RouteContext>, unused: Vec<RouteContext>, handled: bool) -> InsertionContext {
        InsertionContext { problem: Arc::new(Problem { goal: GoalContext { log: Default::default(), failure_handled: handled } }),
                           solution: SolutionContext { required, ignored: vec![Job(9)], unassigned, routes, registry: RegistryContext { unused } } }
    }
    /// in how many places does job j live (required, ignored, unassigned; tours are tracked by tag separately)
    fn occ(v: &Vec<Job>, j: u8) -> usize { let (mut n, mut i) = (0, 0); while i < v.len() { if v[i].0 == j { n += 1; } i += 1; } n }
    fn count(s: &SolutionContext, j: u8) -> usize { occ(&s.required, j) + occ(&s.ignored, j) + s.unassigned.contains_key(&Job(j)) as usize }

    /// C02: finalisation empties `required` into `unassigned` (each job exactly once, with the given reason), keeps the
    /// reasons of jobs that were already unassigned, and loses / duplicates nothing
    #[kani::proof] #[kani::unwind(6)]
    fn finalize_moves_required_to_unassigned_once() {
        let c: u8 = kani::any(); kani::assume(c < 3);           // which job is already unassigned: 0 and 1 are required as well
        let mut unassigned = HashMap::new();
        unassigned.insert(Job(c), UnassignmentInfo::Simple(ViolationCode(5)));
        let mut ic = ctx(vec![Job(0), Job(1)], unassigned, vec![], vec![], false);
        finalize_insertion_ctx(&mut ic);
        let s = &ic.solution;
        assert!(s.required.is_empty(), "post_finalize_empties_required");
        assert!(count(s, 0) == 1 && count(s, 1) == 1 && count(s, c) == 1, "post_every_job_accounted_exactly_once_after_finalisation");
        assert!(s.unassigned.len() == if c < 2 { 2 } else { 3 }, "post_no_other_job_appears");
        assert!(s.unassigned.get(&Job(c)) == Some(&UnassignmentInfo::Simple(ViolationCode(5))), "post_existing_reason_kept");
        let moved = if c == 0 { 1 } else { 0 };
        assert!(s.unassigned.get(&Job(moved)) == Some(&UnassignmentInfo::Unknown), "post_moved_job_has_a_reason");
        assert!(ic.problem.goal.log.borrow().len() == 1, "post_solution_state_accepted_after_finalisation");
    }

    /// C02: a failed insertion of job j moves exactly j from required to unassigned with the violated rule as reason -
    /// unless a feature handled the failure (then nothing moves)
    #[kani::proof] #[kani::unwind(6)]
    fn failure_moves_exactly_the_failed_job() {
        let handled: bool = kani::any();
        let which: u8 = kani::any(); kani::assume(which < 2);
        let mut ic = ctx(vec![Job(0), Job(1), Job(2)], HashMap::new(), vec![route(0, vec![0])], vec![], handled);
        // evaluated: one of two selected jobs failed in the only route (so not everything was tried: no blanket finalisation)
        apply_insertion_failure(&mut ic, InsertionFailure { constraint: ViolationCode(7), stopped: false, job: Some(Job(which)) }, &[0], &[Job(0), Job(1)]);
        let s = &ic.solution;
        let mut j = 0;
        while j < 3 { assert!(count(s, j) == 1, "post_every_job_accounted_exactly_once_after_failure"); j += 1; }
        if handled { assert!(s.required.len() == 3 && s.unassigned.len() == 0, "post_handled_failure_moves_nothing"); }
        else {
            assert!(s.required.len() == 2 && s.unassigned.len() == 1, "post_only_the_failed_job_moves");
            assert!(s.unassigned.get(&Job(which)) == Some(&UnassignmentInfo::Simple(ViolationCode(7))), "post_failed_job_unassigned_with_violated_rule");
        }
    }

    /// C02: a successful insertion puts the job's activities into exactly ONE tour at the stated positions, takes the job
    /// out of required / unassigned, uses the registry's route for a new vehicle (once) or the existing route of that vehicle
    fn success(new_vehicle: bool, was_unassigned: bool) {
        let mut unassigned = HashMap::new();
        if was_unassigned { unassigned.insert(Job(1), UnassignmentInfo::Unknown); }
        let mut ic = ctx(vec![Job(0), Job(1)], unassigned, vec![route(0, vec![0, 50])], vec![route(1, vec![0])], false);
        let actor_id = if new_vehicle { 1 } else { 0 };
        // a pickup-and-delivery job: two activities, positions given relative to the tour as it is BEFORE each insertion
        let success = InsertionSuccess { job: Job(1), activities: vec![(Activity { tag: 11 }, 0), (Activity { tag: 12 }, 1)], actor: Arc::new(Actor { id: actor_id }) };
        apply_insertion_success(&mut ic, success);
        let s = &ic.solution;
        assert!(count(s, 1) == 0 && count(s, 0) == 1, "post_inserted_job_left_required_and_unassigned_others_stay");
        assert!(s.routes.len() == if new_vehicle { 2 } else { 1 } && s.registry.unused.len() == if new_vehicle { 0 } else { 1 }, "post_new_vehicle_route_taken_from_registry_once");
        let idx = if new_vehicle { 1 } else { 0 };
        let t = &s.routes[idx].route.tour.acts;
        if new_vehicle { assert!(t.len() == 3 && t[0] == 0 && t[1] == 11 && t[2] == 12, "post_activities_inserted_at_stated_positions"); assert!(s.routes[0].route.tour.acts.len() == 2, "post_other_tours_untouched"); }
        else { assert!(t.len() == 4 && t[0] == 0 && t[1] == 11 && t[2] == 12 && t[3] == 50, "post_activities_inserted_at_stated_positions"); }
        assert!(s.routes[idx].stale, "post_modified_route_marked_stale");
        let log = ic.problem.goal.log.borrow();
        assert!(log.len() == 1 && log[0] == (2, idx, 1), "post_features_notified_of_the_insertion_with_route_and_job");
    }

    #[kani::proof] #[kani::unwind(5)] fn success_places_job_in_exactly_one_tour_new_vehicle() { success(true, false) }
    #[kani::proof] #[kani::unwind(5)] fn success_places_job_in_exactly_one_tour_used_vehicle() { success(false, true) }

    /// prepare: every unassigned job is queued again exactly once (and stays listed as unassigned until it is placed)
    #[kani::proof] #[kani::unwind(6)]
    fn prepare_requeues_unassigned() {
        let mut unassigned = HashMap::new();
        unassigned.insert(Job(1), UnassignmentInfo::Unknown);
        unassigned.insert(Job(2), UnassignmentInfo::Simple(ViolationCode(3)));
        let mut ic = ctx(vec![Job(0)], unassigned, vec![], vec![], false);
        prepare_insertion_ctx(&mut ic);
        let s = &ic.solution;
        assert!(s.required.len() == 3 && occ(&s.required, 1) == 1 && occ(&s.required, 2) == 1, "post_unassigned_jobs_requeued_once");
    }
}
