// U12b – solution checker, routing group: check_routing_rules / check_stop_statistic / check_tour_statistic /
// check_solution_statistic / skip_distance_check (checker/routing.rs, verbatim) with `impl Add for Statistic`
// (format/solution/extensions.rs, verbatim). C12: a solution is accepted exactly when every stop's arrival time and cumulative
// distance, the tour statistic and the overall statistic agree (within one unit) with a replay of the routing matrix.
#![allow(dead_code, unused_macros, unused_variables, unused_imports)]
/// message text is reduced to its template (which names the rule)
macro_rules! format { ($fmt:literal $($t:tt)*) => { Msg($fmt) } }
macro_rules! println { ($($t:tt)*) => { () } }
#[path = "@VERIF_ENV@/strings.rs"]
mod verif_strings;
use verif_strings::String;
const VERIF_VEC_CAP: usize = 3;
#[path = "@VERIF_ENV@/vec_fixed.rs"]
mod verif_vec;
use verif_vec::Vec;
#[path = "@VERIF_ENV@/eager.rs"]
mod verif_eager;
use verif_eager::FlatMapEager;
use std::ops::Add;

// ------------------------------------------------------------------ environment (assumed)
pub type Float = f64;
pub struct Msg(pub &'static str);
#[derive(Clone, Copy, PartialEq, Debug)] pub struct GenericError(pub &'static str);
impl From<Msg> for GenericError { fn from(m: Msg) -> Self { GenericError(m.0) } }
impl From<std::string::String> for GenericError { fn from(_: std::string::String) -> Self { GenericError("(text)") } }
pub type GenericResult<T> = Result<T, GenericError>;
/// an RFC3339 time string is an opaque token carrying the instant it denotes (parsing / formatting are outside the technique)
#[derive(Clone, Copy, Default, PartialEq, Debug)] pub struct Stamp(pub Float);
pub fn parse_time(s: &Stamp) -> Float { s.0 }
pub fn format_time(t: Float) -> Stamp { Stamp(t) }
#[derive(Clone, Copy, Default, PartialEq, Debug)] pub struct Location(pub usize);
pub struct Profile { pub index: usize, pub scale: Float }
#[derive(Clone, Copy)] pub struct Matrix { pub tag: u8 } // (not zero-sized: CBMC trips over arrays of zero-sized elements)
#[derive(Clone, Copy, Default, PartialEq, Debug)] pub struct Schedule { pub arrival: Stamp, pub departure: Stamp }
#[derive(Clone, Copy, Default)] pub struct Interval { pub start: Stamp, pub end: Stamp }
#[derive(Clone, Copy, Default)] pub struct Activity { pub time: Option<Interval> }
#[derive(Clone, Copy, Default)] pub struct PointStop { pub location: Location, pub time: Schedule, pub distance: i64, pub activities: Vec<Activity> }
#[derive(Clone, Copy, Default)] pub struct TransitStop { pub time: Schedule, pub activities: Vec<Activity> }
#[derive(Clone, Copy)] pub enum Stop { Point(PointStop), Transit(TransitStop) }
impl Default for Stop { fn default() -> Self { Stop::Point(PointStop::default()) } }
#[derive(Clone, Copy, Default, PartialEq, Debug)] pub struct Timing { pub driving: i64, pub serving: i64, pub waiting: i64, pub break_time: i64, pub commuting: i64, pub parking: i64 }
#[derive(Clone, Copy, Default, PartialEq, Debug)] pub struct Statistic { pub cost: Float, pub distance: i64, pub duration: i64, pub times: Timing }
#[derive(Clone, Copy, Default)] pub struct Tour { pub vehicle_id: String, pub stops: Vec<Stop>, pub statistic: Statistic }
pub struct Solution { pub statistic: Statistic, pub tours: Vec<Tour> }
/// routing data as the checker context hands it out: one profile, a 3x3 distance and a 3x3 duration matrix (already scaled)
pub struct CheckerContext { pub matrices: Option<Vec<Matrix>>, pub solution: Solution, pub dist: [[i64; 3]; 3], pub dur: [[i64; 3]; 3] }
impl CheckerContext {
    fn get_vehicle_profile(&self, vehicle_id: &str) -> GenericResult<Profile> { Ok(Profile { index: 0, scale: 1. }) }
    fn get_location_index(&self, location: &Location) -> GenericResult<usize> { Ok(location.0) }
    fn get_matrix_data(&self, profile: &Profile, from_idx: usize, to_idx: usize) -> GenericResult<(i64, i64)> { Ok((self.dist[from_idx][to_idx], self.dur[from_idx][to_idx])) }
}

// ------------------------------------------------------------------ code under contract (verbatim from /repo)
impl Stop {
//@extract vrp-pragmatic/src/format/solution/model.rs :: impl Stop/fn schedule
//@end
//@extract vrp-pragmatic/src/format/solution/model.rs :: impl Stop/fn activities
//@end
//@extract vrp-pragmatic/src/format/solution/model.rs :: impl Stop/fn as_point
//@end
}
//@extract vrp-pragmatic/src/format/solution/extensions.rs :: impl Add for Statistic
//@end
//@extract vrp-pragmatic/src/checker/routing.rs :: fn check_routing_rules
//@end
//@extract vrp-pragmatic/src/checker/routing.rs :: fn check_stop_statistic
//@end
//@extract vrp-pragmatic/src/checker/routing.rs :: fn check_tour_statistic
//@end
//@extract vrp-pragmatic/src/checker/routing.rs :: fn check_solution_statistic
//@end
//@extract vrp-pragmatic/src/checker/routing.rs :: fn skip_distance_check
//@subst ".flat_map(" => ".flat_map_eager(" count=1
//@end

#[cfg(kani)]
mod h {
    use super::*;
    fn v() -> i64 { let x: u8 = kani::any(); kani::assume(x < 16); x as i64 }
    fn list<T, const N: usize>(xs: [T; N]) -> Vec<T> { xs.into_iter().collect() }
    fn near(a: i64, b: i64) -> bool { (a - b).abs() <= 1 }
    fn tour0() -> Tour { Tour { vehicle_id: String(6), stops: Vec::new(), statistic: Statistic::default() } }

    /// a stop is accepted exactly when its arrival and (unless distances are not reported at all) its cumulative distance are
    /// within one unit of the replayed values. Complete: loop-free, all 32-bit values
    #[kani::proof]
    fn stop_statistic_within_one_unit() {
        let (arr, dist, rep_arr, rep_dist): (i32, i32, i32, i32) = (kani::any(), kani::any(), kani::any(), kani::any());
        let skip: bool = kani::any();
        let r = check_stop_statistic(arr as i64, dist as i64, &Schedule { arrival: Stamp(rep_arr as Float), departure: Stamp(0.) }, rep_dist as i64, 1, &tour0(), skip);
        assert!(r.is_ok() == (near(arr as i64, rep_arr as i64) && (skip || near(dist as i64, rep_dist as i64))), "post_stop_accepted_iff_arrival_and_distance_within_one_unit");
        kani::cover!(r.is_err() && near(arr as i64, rep_arr as i64)); kani::cover!(r.is_ok());
    }

    /// the tour statistic is accepted exactly when total distance and duration (last departure - time offset) are within one unit
    #[kani::proof]
    fn tour_statistic_within_one_unit() {
        let (dep, dist, off, sd, sdur): (i32, i32, i32, i32, i32) = (kani::any(), kani::any(), kani::any(), kani::any(), kani::any());
        let skip: bool = kani::any();
        let mut t = tour0(); t.statistic.distance = sd as i64; t.statistic.duration = sdur as i64;
        let r = check_tour_statistic(dep as i64, dist as i64, off as i64, &t, skip);
        assert!(r.is_ok() == ((skip || near(dist as i64, sd as i64)) && near(dep as i64 - off as i64, sdur as i64)), "post_tour_statistic_accepted_iff_within_one_unit");
        kani::cover!(r.is_ok()); kani::cover!(r.is_err() && skip);
    }

    /// the overall statistic must be the sum of the tours (distance and duration exactly)
    #[kani::proof] #[kani::unwind(5)]
    fn solution_statistic_is_sum_of_tours() {
        let (d1, d2, t1, t2, sd, st) = (v(), v(), v(), v(), v() + v(), v() + v());
        let mk = |d: i64, t: i64| { let mut x = tour0(); x.statistic.distance = d; x.statistic.duration = t; x };
        let s = Solution { statistic: Statistic { cost: 0., distance: sd, duration: st, times: Timing::default() }, tours: list([mk(d1, t1), mk(d2, t2)]) };
        let r = check_solution_statistic(&s);
        assert!(r.is_ok() == (sd == d1 + d2 && st == t1 + t2), "post_overall_statistic_accepted_iff_sum_of_tours");
        kani::cover!(r.is_ok()); kani::cover!(r.is_err());
    }

    /// the whole routing rule on one tour of three point stops at locations 0 -> 1 -> 2: accepted exactly when every reported
    /// arrival / cumulative distance and the tour and overall statistics agree, within one unit, with a step-by-step replay of
    /// the matrix from the reported departures
    #[kani::proof] #[kani::unwind(6)]
    fn routing_rule_accepts_iff_reported_numbers_replay() {
        let (d01, d12, t01, t12) = (v(), v(), v(), v());
        let mut dist = [[0i64; 3]; 3]; let mut dur = [[0i64; 3]; 3];
        dist[0][1] = d01; dist[1][2] = d12; dur[0][1] = t01; dur[1][2] = t12;
        dist[1][0] = v(); dist[2][1] = v(); dur[1][0] = v(); dur[2][1] = v(); // reverse directions differ: must not be used
        let dep0 = v();
        let (arr1, dep1, arr2, dep2) = (v() + v(), v() + v(), v() + v() + v(), v() + v() + v());
        let (cd1, cd2) = (v(), v() + v());
        let (sd, sdur) = (v() + v(), v() + v() + v());
        let ps = |loc: usize, arr: i64, dep: i64, cd: i64| Stop::Point(PointStop { location: Location(loc), time: Schedule { arrival: Stamp(arr as Float), departure: Stamp(dep as Float) }, distance: cd, activities: list([Activity { time: None }]) });
        let stat = Statistic { cost: 0., distance: sd, duration: sdur, times: Timing::default() };
        let tour = Tour { vehicle_id: String(6), stops: list([ps(0, dep0, dep0, 0), ps(1, arr1, dep1, cd1), ps(2, arr2, dep2, cd2)]), statistic: stat };
        let ctx = CheckerContext { matrices: Some(list([Matrix { tag: 0 }])), solution: Solution { statistic: stat, tours: list([tour]) }, dist, dur };
        let r = check_routing_rules(&ctx);
        let no_distances = cd1 == 0 && cd2 == 0; // "hre" output without distances: the distance checks are skipped
        let ok = near(dep0 + t01, arr1) && near(dep1 + t12, arr2)
            && (no_distances || (near(d01, cd1) && near(cd1 + d12, cd2) && near(cd2, sd)))
            && near(dep2 - dep0, sdur);
        assert!(r.is_ok() == ok, "post_routing_group_accepts_iff_reported_numbers_replay_within_one_unit");
        kani::cover!(ok && !no_distances); kani::cover!(!ok);
    }

    /// without routing matrices there is nothing to replay
    #[kani::proof] #[kani::unwind(6)]
    fn no_matrix_nothing_to_check() {
        let ctx = CheckerContext { matrices: None, solution: Solution { statistic: Statistic::default(), tours: Vec::new() }, dist: [[0; 3]; 3], dur: [[0; 3]; 3] };
        assert!(check_routing_rules(&ctx).is_ok(), "post_no_matrix_nothing_to_check");
    }
}
