// U18a – SlotMachine (Thompson sampling state of the adaptive operator selector): whole file verbatim
#![allow(dead_code, unused_variables, unused_imports)]
pub type Float = f64;

//@extract rosomaxa/src/utils/random.rs :: trait DistributionSampler
//@end
//@extract rosomaxa/src/algorithms/rl/slot_machine.rs :: *
//@end

#[cfg(kani)]
mod h {
    use super::*;
    #[derive(Clone)]
    struct Act;
    struct Fb(Float);
    impl SlotFeedback for Fb { fn reward(&self) -> Float { self.0 } }
    impl SlotAction for Act { type Context = (); type Feedback = Fb; fn take(&self, _: ()) -> Fb { Fb(0.) } }
    /// sampler contract (assumed of rand_distr): gamma needs finite positive shape and scale and returns 0 or a
    /// *normal* positive finite float; normal needs finite mean and finite std_dev >= 0. The preconditions are
    /// ASSERTED here, i.e. they are obligations of SlotMachine::sample.
    #[derive(Clone)]
    struct Smp;
    impl DistributionSampler for Smp {
        fn gamma(&self, shape: Float, scale: Float) -> Float {
            assert!(shape > 0. && shape.is_finite(), "pre_gamma_shape_positive_finite");
            assert!(scale > 0. && scale.is_finite(), "pre_gamma_scale_positive_finite");
            let v: Float = kani::any();
            kani::assume(v == 0. || (v.is_normal() && v > 0.));
            v
        }
        fn normal(&self, mean: Float, std_dev: Float) -> Float {
            assert!(mean.is_finite(), "pre_normal_mean_finite");
            assert!(std_dev.is_finite() && std_dev >= 0., "pre_normal_std_dev_finite_non_negative");
            mean
        }
    }
    /// CBMC's built-in powi model is imprecise; powi(2) is x*x (assumption listed in the evidence)
    fn powi_stub(x: f64, n: i32) -> f64 { if n == 2 { x * x } else { kani::any() } }

    const R_MAX: Float = 1.0e4; // rewards: documented range is [0, ~6]; three orders of magnitude of margin
    const DELTA: Float = R_MAX / 2251799813685248.0; // 2^-51 * R: one-ulp allowance (exact hull containment is false in IEEE arithmetic)

    /// step precondition: the part of the history invariant I(n) a single step needs (the link to the counter n –
    /// alpha = 1 + n/2, beta <= 10 + n*1.001*R^2 < 1e22 for n < 2^40 – is lemma L18, integers, Verus)
    fn pre(n_max: usize) -> (SlotMachine<Act, Smp>, Float) {
        let mut m = SlotMachine::new(1.0, Act, Smp);
        m.n = kani::any();
        kani::assume(m.n < n_max);
        m.alpha = kani::any(); m.beta = kani::any(); m.mu = kani::any(); m.v = kani::any();
        kani::assume(m.alpha >= 1. && m.alpha <= 1125899906842624.0); // 2^50: adding 1/2 is exact
        kani::assume(m.beta >= 10. && m.beta <= 1.0e22);
        kani::assume(m.mu >= 0. && m.mu <= R_MAX * 1.001);
        kani::assume(m.v >= 0. && m.v.is_finite());
        let r: Float = kani::any();
        kani::assume(r >= 0. && r <= R_MAX);
        (m, r)
    }
    const NQ: usize = 1 << 12;
    const NF: usize = 1 << 40;

    fn alpha_n(nm: usize) { let (mut m, r) = pre(nm); let (a0, n0) = (m.alpha, m.n); m.update(&Fb(r)); assert!(m.n == n0 + 1, "post_counter_incremented"); assert!(m.alpha == a0 + 0.5 && m.alpha > 0., "post_shape_grows_by_half_and_stays_positive"); kani::cover!(n0 > 0); }
    fn beta(nm: usize) { let (mut m, r) = pre(nm); let b0 = m.beta; m.update(&Fb(r)); assert!(m.beta >= b0 && m.beta > 0., "post_rate_non_decreasing_positive"); assert!(m.beta <= b0 + 1.001 * R_MAX * R_MAX * 1.01, "post_rate_step_bounded"); assert!(m.beta.is_finite(), "post_rate_finite"); kani::cover!(m.beta > b0); }
    fn var(nm: usize) { let (mut m, r) = pre(nm); m.update(&Fb(r)); assert!(m.v >= 0. && m.v.is_finite(), "post_variance_non_negative_finite"); }
    fn mean(nm: usize) { let (mut m, r) = pre(nm); let mu0 = m.mu; m.update(&Fb(r)); assert!(m.mu >= 0. && m.mu.is_finite(), "post_mean_finite_non_negative"); assert!(m.mu <= mu0.max(r) + DELTA, "post_mean_not_above_hull"); assert!(m.mu >= mu0.min(r) - DELTA, "post_mean_not_below_hull"); kani::cover!(r > mu0); kani::cover!(r < mu0); }
    fn sample(nm: usize) { let (m, _r) = pre(nm); let s = m.sample(); assert!(s.is_finite(), "post_sample_finite"); kani::cover!(m.n == 0); kani::cover!(m.n > 0); }

    #[kani::proof] #[kani::stub(f64::powi, powi_stub)] fn step_alpha_n_q() { alpha_n(NQ); }
    #[kani::proof] #[kani::stub(f64::powi, powi_stub)] fn step_beta_q() { beta(NQ); }
    #[kani::proof] #[kani::stub(f64::powi, powi_stub)] fn step_variance_q() { var(NQ); }
    #[kani::proof] #[kani::stub(f64::powi, powi_stub)] fn step_mean_q() { mean(1 << 4); }
    #[kani::proof] #[kani::stub(f64::powi, powi_stub)] fn sample_total_q() { sample(NQ); }
    #[kani::proof] #[kani::stub(f64::powi, powi_stub)] fn step_alpha_n_full() { alpha_n(NF); }
    #[kani::proof] #[kani::stub(f64::powi, powi_stub)] fn step_beta_full() { beta(NF); }
    #[kani::proof] #[kani::stub(f64::powi, powi_stub)] fn step_variance_full() { var(NF); }
    #[kani::proof] #[kani::stub(f64::powi, powi_stub)] fn step_mean_full() { mean(NF); }
    #[kani::proof] #[kani::stub(f64::powi, powi_stub)] fn sample_total_full() { sample(NF); }

    /// initial state satisfies the step precondition
    #[kani::proof]
    fn new_establishes_invariant() {
        let prior: Float = kani::any();
        kani::assume(prior >= 0. && prior <= R_MAX);
        let m = SlotMachine::new(prior, Act, Smp);
        let (alpha, beta, mu, v, n) = m.get_params();
        assert!(n == 0 && alpha == 1. && beta == 10. && mu == prior && v == 5., "post_new_initial_state");
    }
}
