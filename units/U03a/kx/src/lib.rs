// U03a/U05b/U20a – schedule_update.rs (verbatim) + Tour (verbatim) + estimate_leg (verbatim) in a stub environment
#![allow(dead_code, unused_imports, unused_variables, mismatched_lifetime_syntaxes)]
#[path = "@VERIF_ENV@/collections.rs"]
mod verif_env;
use verif_env::HashSet;
use std::hash::BuildHasherDefault;
use std::iter::once;
use std::slice::{Iter, IterMut};
use std::sync::Arc;
pub struct FxHasher;
pub const OP_START_MSG: &str = "";
pub type Float = f64; pub type Timestamp = f64; pub type Duration = f64; pub type Distance = f64; pub type Location = usize;
#[derive(Clone, PartialEq, Eq, Debug)] pub struct Job(pub u8);
#[derive(Clone)] pub struct TimeWindow { pub start: Timestamp, pub end: Timestamp }
#[derive(Clone)] pub struct Schedule { pub arrival: Timestamp, pub departure: Timestamp }
impl Schedule { pub fn new(arrival: Timestamp, departure: Timestamp) -> Self { Self { arrival, departure } } }
#[derive(Clone)] pub struct Place { pub idx: usize, pub location: Location, pub duration: Duration, pub time: TimeWindow }
pub struct Activity { pub place: Place, pub schedule: Schedule, pub job: Option<u8> }
impl Activity {
    pub fn deep_copy(&self) -> Self { Self { place: self.place.clone(), schedule: self.schedule.clone(), job: self.job } }
    pub fn has_same_job(&self, job: &Job) -> bool { self.job == Some(job.0) }
    pub fn retrieve_job(&self) -> Option<Job> { match self.job { Some(id) => Some(Job(id)), None => None } }
}
pub type Leg<'a> = (&'a [Activity], usize);
#[derive(Copy, Clone)] pub enum TravelTime { Arrival(Timestamp), Departure(Timestamp) }
pub struct VehiclePlace { pub location: Location }
pub struct ActorDetail { pub start: Option<VehiclePlace>, pub end: Option<VehiclePlace>, pub time: TimeWindow }
pub struct Actor { pub detail: ActorDetail }
pub struct Route { pub actor: Arc<Actor>, pub tour: Tour }
#[derive(Default)] pub struct RouteState { pub latest_arrival: Option<Vec<Timestamp>>, pub waiting: Option<Vec<Timestamp>>, pub total_distance: Option<Distance>, pub total_duration: Option<Duration> }
impl RouteState {
    pub fn set_latest_arrival_states(&mut self, v: Vec<Timestamp>) { self.latest_arrival = Some(v) }
    pub fn set_waiting_time_states(&mut self, v: Vec<Timestamp>) { self.waiting = Some(v) }
    pub fn set_total_distance(&mut self, v: Distance) { self.total_distance = Some(v) }
    pub fn set_total_duration(&mut self, v: Duration) { self.total_duration = Some(v) }
}
pub struct RouteContext { pub route: Route, pub state: RouteState, pub stale: bool }
impl RouteContext {
    pub fn route(&self) -> &Route { &self.route }
    pub fn route_mut(&mut self) -> &mut Route { self.stale = true; &mut self.route }
    pub fn state_mut(&mut self) -> &mut RouteState { self.stale = true; &mut self.state }
    pub fn as_mut(&mut self) -> (&mut Route, &mut RouteState) { self.stale = true; (&mut self.route, &mut self.state) }
}
pub trait TransportCost { fn duration(&self, route: &Route, from: Location, to: Location, t: TravelTime) -> Duration; fn distance(&self, route: &Route, from: Location, to: Location, t: TravelTime) -> Distance; }
pub trait ActivityCost { fn estimate_departure(&self, route: &Route, activity: &Activity, arrival: Timestamp) -> Timestamp; fn estimate_arrival(&self, route: &Route, activity: &Activity, departure: Timestamp) -> Timestamp; }
pub struct M { pub dur: [[Float; 4]; 4], pub dist: [[Float; 4]; 4] }
impl TransportCost for M {
    fn duration(&self, _: &Route, from: Location, to: Location, _: TravelTime) -> Duration { self.dur[from][to] }
    fn distance(&self, _: &Route, from: Location, to: Location, _: TravelTime) -> Distance { self.dist[from][to] }
}
pub struct SimpleActivityCost {}
//@extract vrp-core/src/models/problem/costs.rs :: impl ActivityCost for SimpleActivityCost
//@end
pub type Cost = f64;
pub struct ActivityContext<'a> { pub index: usize, pub prev: &'a Activity, pub target: &'a Activity, pub next: Option<&'a Activity> }

// ------------------------------------------------------------------ code under contract (verbatim from /repo)
//@extract vrp-core/src/utils/types.rs :: enum Either
//@end
//@extract vrp-core/src/utils/types.rs :: impl<L, R> Clone for Either<L, R>
//@end
//@extract vrp-core/src/utils/types.rs :: impl<L, R, T> Iterator for Either<L, R>
//@end
//@extract vrp-core/src/models/solution/tour.rs :: struct Tour
//@end
//@extract vrp-core/src/models/solution/tour.rs :: impl Tour/* skip=new
//@end
//@extract vrp-core/src/construction/enablers/schedule_update.rs :: fn update_route_schedule
//@end
//@extract vrp-core/src/construction/enablers/schedule_update.rs :: fn update_schedules
//@end
//@extract vrp-core/src/construction/enablers/schedule_update.rs :: fn update_states
//@end
//@extract vrp-core/src/construction/enablers/schedule_update.rs :: fn update_statistics
//@end
//@extract vrp-core/src/construction/features/transport.rs :: fn estimate_leg
//@end

#[cfg(kani)]
mod h {
    use super::*;
    /// exact domain: integer-valued times/distances 0..65535 (float sums of a handful of them are exact)
    fn t() -> Float { let v: u16 = kani::any(); v as Float }
    fn any_act(loc: usize, job: Option<u8>) -> Activity {
        let (s, e) = (t(), t());
        kani::assume(s <= e);
        // schedule starts as garbage: update_route_schedule must overwrite it
        Activity { place: Place { idx: 0, location: loc, duration: t(), time: TimeWindow { start: s, end: e } }, schedule: Schedule { arrival: t(), departure: t() }, job }
    }
    fn any_matrix(dur: bool) -> M {
        let mut m = M { dur: [[0.; 4]; 4], dist: [[0.; 4]; 4] };
        let mut i = 0;
        while i < 4 { let mut j = 0; while j < 4 { if i != j { if dur { m.dur[i][j] = t(); } m.dist[i][j] = t(); } j += 1; } i += 1; }
        m
    }
    /// is_valid(): an actor without an end place has an unbounded shift end (models/problem/fleet.rs builds it so)
    fn actor(closed: bool, shift_end: Float) -> Arc<Actor> {
        Arc::new(Actor { detail: ActorDetail { start: Some(VehiclePlace { location: 0 }), end: if closed { Some(VehiclePlace { location: 0 }) } else { None },
                                               time: TimeWindow { start: 0., end: if closed { shift_end } else { Float::MAX } } } })
    }

    /// C03/C05: from an arbitrary garbage cache the schedule, totals and latest-arrival states equal an independent
    /// forward/backward replay from the bare tour (same operation order => bit-equal)
    fn schedule_replay(n: usize, closed: bool) {
        let m = any_matrix(true);
        let mut tour = Tour::default();
        let dep0 = t();
        let mut start = any_act(0, None);
        start.schedule = Schedule { arrival: dep0, departure: dep0 };
        start.place.duration = 0.;
        tour.set_start(start);
        if closed { let mut end = any_act(0, None); end.place.duration = 0.; tour.set_end(end); }
        let mut k = 0;
        while k < n { tour.insert_last(any_act(1 + k, Some(k as u8))); k += 1; }
        let shift_end = t();
        let mut ctx = RouteContext { route: Route { actor: actor(closed, shift_end), tour }, state: RouteState::default(), stale: false };
        // garbage cache: whatever was there before must not matter
        ctx.state.total_distance = Some(t());
        ctx.state.total_duration = Some(t());
        ctx.state.latest_arrival = Some(vec![t()]);
        ctx.state.waiting = Some(vec![t(), t(), t(), t()]);

        update_route_schedule(&mut ctx, &SimpleActivityCost {}, &m);

        // forward replay: arrive, wait for the window, serve, drive on
        let total = ctx.route.tour.total();
        let (mut loc, mut dep, mut dist) = (0usize, dep0, 0.0f64);
        let mut idx = 1;
        while idx < total {
            let a = ctx.route.tour.get(idx).unwrap();
            let arr = dep + m.dur[loc][a.place.location];
            let d = (if arr > a.place.time.start { arr } else { a.place.time.start }) + a.place.duration;
            assert!(a.schedule.arrival == arr, "post_arrival_is_previous_departure_plus_travel");
            assert!(a.schedule.departure == d, "post_departure_is_max_arrival_window_start_plus_service");
            dist = dist + m.dist[loc][a.place.location];
            loc = a.place.location; dep = d; idx += 1;
        }
        assert!(ctx.state.total_distance == Some(dist), "post_total_distance_is_sum_of_legs");
        assert!(ctx.state.total_duration == Some(dep - dep0), "post_total_duration_is_end_departure_minus_start_departure");
        let la = ctx.state.latest_arrival.as_ref().unwrap();
        let wt = ctx.state.waiting.as_ref().unwrap();
        assert!(la.len() == total - if closed { 1 } else { 0 } && wt.len() == la.len(), "post_one_state_entry_per_activity_minus_closed_end");
        // backward recurrence: latest arrival that still lets the rest of the tour be served in time; future waiting
        let mut limit = if closed { shift_end } else { Float::MAX };
        let mut nloc = 0usize;
        let mut wait = 0.0f64;
        let mut k = n;
        while k >= 1 {
            let a = ctx.route.tour.get(k).unwrap();
            let expect = if limit == Float::MAX { a.place.time.end } else {
                let x = (limit - m.dur[a.place.location][nloc]) - a.place.duration;
                if a.place.time.end < x { a.place.time.end } else { x }
            };
            assert!(la[k] == expect, "post_latest_arrival_backward_recurrence");
            let w = a.place.time.start - a.schedule.arrival;
            wait = wait + (if w > 0. { w } else { 0. });
            assert!(wt[k] == wait, "post_future_waiting_backward_sum");
            limit = expect; nloc = a.place.location; k -= 1;
        }
        assert!(la[0] == 0. && wt[0] == 0., "post_start_state_is_default");
        assert!(ctx.stale, "post_context_marked_stale_by_mutable_access");
    }
    #[kani::proof] #[kani::unwind(7)] fn sched_n1_open() { schedule_replay(1, false) }
    #[kani::proof] #[kani::unwind(7)] fn sched_n1_closed() { schedule_replay(1, true) }
    #[kani::proof] #[kani::unwind(7)] fn sched_n2_closed() { schedule_replay(2, true) }
    #[kani::proof] #[kani::unwind(7)] fn sched_n2_open() { schedule_replay(2, false) }
    #[kani::proof] #[kani::unwind(7)] fn sched_n0_closed() { schedule_replay(0, true) }

    /// C05: recomputation is idempotent and does not depend on the previous cache content
    #[kani::proof] #[kani::unwind(7)]
    fn sched_idempotent_n1_closed() {
        let m = any_matrix(true);
        let mut tour = Tour::default();
        let mut start = any_act(0, None); start.place.duration = 0.;
        tour.set_start(start);
        let mut end = any_act(0, None); end.place.duration = 0.; tour.set_end(end);
        tour.insert_last(any_act(1, Some(0)));
        let mut ctx = RouteContext { route: Route { actor: actor(true, t()), tour }, state: RouteState::default(), stale: false };
        update_route_schedule(&mut ctx, &SimpleActivityCost {}, &m);
        let snap = (ctx.route.tour.get(1).unwrap().schedule.clone(), ctx.route.tour.get(2).unwrap().schedule.clone(), ctx.state.total_distance, ctx.state.total_duration, ctx.state.latest_arrival.clone(), ctx.state.waiting.clone());
        ctx.state.total_distance = Some(t());
        ctx.state.latest_arrival = None;
        update_route_schedule(&mut ctx, &SimpleActivityCost {}, &m);
        let a1 = &ctx.route.tour.get(1).unwrap().schedule; let a2 = &ctx.route.tour.get(2).unwrap().schedule;
        assert!(a1.arrival == snap.0.arrival && a1.departure == snap.0.departure && a2.arrival == snap.1.arrival && a2.departure == snap.1.departure, "post_recompute_idempotent_schedule");
        assert!(ctx.state.total_distance == snap.2 && ctx.state.total_duration == snap.3 && ctx.state.latest_arrival == snap.4 && ctx.state.waiting == snap.5, "post_recompute_idempotent_state");
    }

    // ---------------------------------------------------------------- C20: quoted distance delta == real change of the total
    fn plain_act(loc: usize, job: Option<u8>) -> Activity {
        Activity { place: Place { idx: 0, location: loc, duration: 0., time: TimeWindow { start: 0., end: 1e9 } }, schedule: Schedule { arrival: 0., departure: 0. }, job }
    }
    fn build(n: usize, closed: bool, insert_at: Option<usize>) -> RouteContext {
        let mut tour = Tour::default();
        tour.set_start(plain_act(0, None));
        // the vehicle ends at location 2, NOT where it starts (location 0): d(start, end) is an arbitrary matrix entry
        if closed { tour.set_end(plain_act(2, None)); }
        let mut k = 0;
        while k < n { tour.insert_last(plain_act(1 + k, Some(k as u8))); k += 1; }
        if let Some(i) = insert_at { tour.insert_at(plain_act(3, Some(9)), i); }
        let a = Arc::new(Actor { detail: ActorDetail { start: Some(VehiclePlace { location: 0 }), end: if closed { Some(VehiclePlace { location: 2 }) } else { None }, time: TimeWindow { start: 0., end: if closed { 1e9 } else { Float::MAX } } } });
        RouteContext { route: Route { actor: a, tour }, state: RouteState::default(), stale: false }
    }
    fn estimate_equals_delta(n: usize, closed: bool, leg: usize) {
        let m = any_matrix(false);
        let mut ctx = build(n, closed, None);
        update_route_schedule(&mut ctx, &SimpleActivityCost {}, &m);
        // an empty tour is not part of the solution: the distance objective counts it as 0
        let before = if n == 0 { 0. } else { ctx.state.total_distance.unwrap() };
        let target = plain_act(3, Some(9));
        let prev = ctx.route.tour.get(leg).unwrap();
        let next = ctx.route.tour.get(leg + 1);
        let actx = ActivityContext { index: leg, prev, target: &target, next };
        let route_ref = &ctx.route;
        let est = estimate_leg(&m, &SimpleActivityCost {}, &ctx, &actx, |from, to, time| m.distance(route_ref, from, to, time));
        let mut after_ctx = build(n, closed, Some(leg + 1));
        update_route_schedule(&mut after_ctx, &SimpleActivityCost {}, &m);
        let after = after_ctx.state.total_distance.unwrap();
        assert!(est == after - before, "post_quoted_distance_equals_change_of_total_distance");
    }
    #[kani::proof] #[kani::unwind(7)] fn est_n0_closed() { estimate_equals_delta(0, true, 0) }
    #[kani::proof] #[kani::unwind(7)] fn est_n0_open() { estimate_equals_delta(0, false, 0) }
    #[kani::proof] #[kani::unwind(7)] fn est_n1_closed_leg0() { estimate_equals_delta(1, true, 0) }
    #[kani::proof] #[kani::unwind(7)] fn est_n1_closed_leg1() { estimate_equals_delta(1, true, 1) }
    #[kani::proof] #[kani::unwind(7)] fn est_n1_open_leg0() { estimate_equals_delta(1, false, 0) }
    #[kani::proof] #[kani::unwind(7)] fn est_n1_open_last() { estimate_equals_delta(1, false, 1) }
}
