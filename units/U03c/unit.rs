// U03c – the overall statistic of a solution is the field-wise sum of the tours' statistics (pragmatic format,
// format/solution/extensions.rs `impl Add for Statistic`, verbatim body, Verus)
#![allow(unused_imports, dead_code)]
use vstd::prelude::*;
use vstd::std_specs::ops::*;
verus! {

pub mod fl {
    use vstd::prelude::*;
    use vstd::std_specs::ops::*;
    /// Rust/IEEE: f64 addition never panics and is a deterministic function of its operands
    pub broadcast axiom fn ax_f64_add_req(a: f64, b: f64) ensures #[trigger] a.add_req(b);
    pub axiom fn ax_f64_obeys_add() ensures <f64 as AddSpec>::obeys_add_spec();
    pub broadcast group float_total { ax_f64_add_req }
}
broadcast use fl::float_total;

pub type Float = f64;
// field lists mirror format/solution/model.rs (serde attributes dropped)
pub struct Timing { pub driving: i64, pub serving: i64, pub waiting: i64, pub break_time: i64, pub commuting: i64, pub parking: i64 }
pub struct Statistic { pub cost: Float, pub distance: i64, pub duration: i64, pub times: Timing }

pub open spec fn small(x: i64) -> bool { -0x2000_0000_0000_0000 <= x <= 0x2000_0000_0000_0000 }
pub open spec fn in_range(s: Statistic) -> bool {
    small(s.distance) && small(s.duration) && small(s.times.driving) && small(s.times.serving) && small(s.times.waiting)
    && small(s.times.break_time) && small(s.times.commuting) && small(s.times.parking)
}

impl Statistic {
//@extract vrp-pragmatic/src/format/solution/extensions.rs :: impl Add for Statistic/fn add ret=r vis=private
//@| requires in_range(self), in_range(rhs),
//@| ensures
//@|     r.cost == self.cost.add_spec(rhs.cost),
//@|     r.distance == self.distance + rhs.distance,
//@|     r.duration == self.duration + rhs.duration,
//@|     r.times.driving == self.times.driving + rhs.times.driving,
//@|     r.times.serving == self.times.serving + rhs.times.serving,
//@|     r.times.waiting == self.times.waiting + rhs.times.waiting,
//@|     r.times.break_time == self.times.break_time + rhs.times.break_time,
//@|     r.times.commuting == self.times.commuting + rhs.times.commuting,
//@|     r.times.parking == self.times.parking + rhs.times.parking,
//@prologue proof { fl::ax_f64_obeys_add(); }
//@subst "Self::Output" => "Statistic" count=1
//@end
}

// vacuity guard: must be REJECTED
proof fn vacuity_in_range(s: Statistic) requires in_range(s) { assert(s.distance == 0); }

} // verus!
fn main() {}
