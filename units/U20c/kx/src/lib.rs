// U20c – combined cost objective: CostObjective::estimate_route/estimate_activity/analyze_route_leg, TransportCost::cost, ActivityCost::cost,
// InsertionContext::get_total_cost, update_route_schedule and Tour (all verbatim) in a stub environment
#![allow(dead_code, unused_imports, unused_variables, mismatched_lifetime_syntaxes)]
#[path = "@VERIF_ENV@/collections.rs"]
mod verif_env;
use verif_env::HashSet;
use std::hash::BuildHasherDefault;
use std::iter::once;
use std::slice::{Iter, IterMut};
use std::sync::Arc;
pub struct FxHasher;
pub const OP_START_MSG: &str = "";
pub type Float = f64; pub type Timestamp = f64; pub type Duration = f64; pub type Distance = f64; pub type Location = usize;
#[derive(Clone, PartialEq, Eq, Debug)] pub struct Job(pub u8);
#[derive(Clone)] pub struct TimeWindow { pub start: Timestamp, pub end: Timestamp }
#[derive(Clone)] pub struct Schedule { pub arrival: Timestamp, pub departure: Timestamp }
impl Schedule { pub fn new(arrival: Timestamp, departure: Timestamp) -> Self { Self { arrival, departure } } }
#[derive(Clone)] pub struct Place { pub idx: usize, pub location: Location, pub duration: Duration, pub time: TimeWindow }
pub struct Activity { pub place: Place, pub schedule: Schedule, pub job: Option<u8> }
impl Activity {
    pub fn deep_copy(&self) -> Self { Self { place: self.place.clone(), schedule: self.schedule.clone(), job: self.job } }
    pub fn has_same_job(&self, job: &Job) -> bool { self.job == Some(job.0) }
    pub fn retrieve_job(&self) -> Option<Job> { match self.job { Some(id) => Some(Job(id)), None => None } }
}
pub type Leg<'a> = (&'a [Activity], usize);
#[derive(Copy, Clone)] pub enum TravelTime { Arrival(Timestamp), Departure(Timestamp) }
pub struct VehiclePlace { pub location: Location }
pub struct ActorDetail { pub start: Option<VehiclePlace>, pub end: Option<VehiclePlace>, pub time: TimeWindow }
pub struct Costs { pub fixed: Float, pub per_distance: Float, pub per_driving_time: Float, pub per_waiting_time: Float, pub per_service_time: Float }
pub struct Vehicle { pub costs: Costs }
pub struct Driver { pub costs: Costs }
pub struct Actor { pub detail: ActorDetail, pub vehicle: Arc<Vehicle>, pub driver: Arc<Driver> }
pub struct Route { pub actor: Arc<Actor>, pub tour: Tour }
#[derive(Default)] pub struct RouteState { pub latest_arrival: Option<Vec<Timestamp>>, pub waiting: Option<Vec<Timestamp>>, pub total_distance: Option<Distance>, pub total_duration: Option<Duration> }
impl RouteState {
    pub fn get_total_distance(&self) -> Option<&Float> { self.total_distance.as_ref() }
    pub fn get_total_duration(&self) -> Option<&Float> { self.total_duration.as_ref() }
    pub fn get_waiting_time_at(&self, idx: usize) -> Option<&Timestamp> { self.waiting.as_ref().and_then(|v| v.get(idx)) }
    pub fn set_latest_arrival_states(&mut self, v: Vec<Timestamp>) { self.latest_arrival = Some(v) }
    pub fn set_waiting_time_states(&mut self, v: Vec<Timestamp>) { self.waiting = Some(v) }
    pub fn set_total_distance(&mut self, v: Distance) { self.total_distance = Some(v) }
    pub fn set_total_duration(&mut self, v: Duration) { self.total_duration = Some(v) }
}
pub struct RouteContext { pub route: Route, pub state: RouteState, pub stale: bool }
impl RouteContext {
    pub fn route(&self) -> &Route { &self.route }
    pub fn state(&self) -> &RouteState { &self.state }
    pub fn route_mut(&mut self) -> &mut Route { self.stale = true; &mut self.route }
    pub fn state_mut(&mut self) -> &mut RouteState { self.stale = true; &mut self.state }
    pub fn as_mut(&mut self) -> (&mut Route, &mut RouteState) { self.stale = true; (&mut self.route, &mut self.state) }
}
pub trait TransportCost {
//@extract vrp-core/src/models/problem/costs.rs :: trait TransportCost/fn cost
//@end
    fn duration(&self, route: &Route, from: Location, to: Location, t: TravelTime) -> Duration; fn distance(&self, route: &Route, from: Location, to: Location, t: TravelTime) -> Distance; }
pub trait ActivityCost {
//@extract vrp-core/src/models/problem/costs.rs :: trait ActivityCost/fn cost
//@end
    fn estimate_departure(&self, route: &Route, activity: &Activity, arrival: Timestamp) -> Timestamp; fn estimate_arrival(&self, route: &Route, activity: &Activity, departure: Timestamp) -> Timestamp; }
pub struct M { pub dur: [[Float; 4]; 4], pub dist: [[Float; 4]; 4] }
impl TransportCost for M {
    fn duration(&self, _: &Route, from: Location, to: Location, _: TravelTime) -> Duration { self.dur[from][to] }
    fn distance(&self, _: &Route, from: Location, to: Location, _: TravelTime) -> Distance { self.dist[from][to] }
}
pub struct SimpleActivityCost {}
//@extract vrp-core/src/models/problem/costs.rs :: impl ActivityCost for SimpleActivityCost
//@end
pub type Cost = f64;
pub struct ActivityContext<'a> { pub index: usize, pub prev: &'a Activity, pub target: &'a Activity, pub next: Option<&'a Activity> }

// ------------------------------------------------------------------ code under contract (verbatim from /repo)
//@extract vrp-core/src/utils/types.rs :: enum Either
//@end
//@extract vrp-core/src/utils/types.rs :: impl<L, R> Clone for Either<L, R>
//@end
//@extract vrp-core/src/utils/types.rs :: impl<L, R, T> Iterator for Either<L, R>
//@end
//@extract vrp-core/src/models/solution/tour.rs :: struct Tour
//@end
//@extract vrp-core/src/models/solution/tour.rs :: impl Tour/* skip=new
//@end
//@extract vrp-core/src/construction/enablers/schedule_update.rs :: fn update_route_schedule
//@end
//@extract vrp-core/src/construction/enablers/schedule_update.rs :: fn update_schedules
//@end
//@extract vrp-core/src/construction/enablers/schedule_update.rs :: fn update_states
//@end
//@extract vrp-core/src/construction/enablers/schedule_update.rs :: fn update_statistics
//@end
pub struct SolutionContext { pub routes: Vec<RouteContext> }
pub struct InsertionContext { pub solution: SolutionContext }
impl InsertionContext {
//@extract vrp-core/src/construction/heuristics/context.rs :: impl InsertionContext/fn get_total_cost
//@end
}
//@extract vrp-core/src/construction/features/transport.rs :: struct CostObjective
//@end
//@extract vrp-core/src/construction/features/transport.rs :: impl CostObjective
//@end

#[cfg(kani)]
mod h {
    use super::*;
    /// exact domain: integer-valued distances/durations/fixed costs 0..255, constant small rates (all sums and products are exact in f64;
    /// symbolic rates make every product a full 53x53-bit multiplier: the equality then does not finish in CBMC within 40 min)
    fn t() -> Float { let v: u8 = kani::any(); kani::assume(v < 4); v as Float }
    fn any_matrix() -> M {
        let mut m = M { dur: [[0.; 4]; 4], dist: [[0.; 4]; 4] };
        let mut i = 0;
        while i < 4 { let mut j = 0; while j < 4 { if i != j { m.dur[i][j] = t(); m.dist[i][j] = t(); } j += 1; } i += 1; }
        m
    }
    /// is_valid(): the three per-time rates of a cost record are equal - the pragmatic format exposes one `time` rate, and
    /// get_total_cost's own comment states that fitness differs from the real cost otherwise
    fn costs(fixed: Float, per_distance: Float, per_time: Float) -> Costs { Costs { fixed, per_distance, per_driving_time: per_time, per_waiting_time: per_time, per_service_time: per_time } }
    /// no waiting anywhere: every window opens at 0
    fn act(loc: usize, job: Option<u8>, service: Float) -> Activity {
        Activity { place: Place { idx: 0, location: loc, duration: service, time: TimeWindow { start: 0., end: 1e9 } }, schedule: Schedule { arrival: 0., departure: 0. }, job }
    }
    struct K { v: (Float, Float, Float), d: (Float, Float, Float), s1: Float, s3: Float }
    fn build(k: &K, n: usize, closed: bool, insert_at: Option<usize>) -> RouteContext {
        let mut tour = Tour::default();
        tour.set_start(act(0, None, 0.));
        // the vehicle ends at location 2, NOT where it starts (location 0)
        if closed { tour.set_end(act(2, None, 0.)); }
        if n == 1 { tour.insert_last(act(1, Some(0), k.s1)); }
        if let Some(i) = insert_at { tour.insert_at(act(3, Some(9), k.s3), i); }
        let a = Arc::new(Actor { detail: ActorDetail { start: Some(VehiclePlace { location: 0 }), end: if closed { Some(VehiclePlace { location: 2 }) } else { None }, time: TimeWindow { start: 0., end: if closed { 1e9 } else { Float::MAX } } },
                                 vehicle: Arc::new(Vehicle { costs: costs(k.v.0, k.v.1, k.v.2) }), driver: Arc::new(Driver { costs: costs(k.d.0, k.d.1, k.d.2) }) });
        RouteContext { route: Route { actor: a, tour }, state: RouteState::default(), stale: false }
    }
    /// C20 (combined cost objective, no waiting before and after): quote for opening the tour + quote for the position
    /// == total cost of the solution after carrying the insertion out - total cost before
    fn cost_estimate_equals_delta(n: usize, closed: bool, leg: usize, rates: (Float, Float, Float, Float)) {
        let m = Arc::new(any_matrix());
        let k = K { v: (t(), rates.0, rates.1), d: (t(), rates.2, rates.3), s1: t(), s3: t() };
        let obj = CostObjective { activity: Arc::new(SimpleActivityCost {}), transport: m.clone() };
        let mut ctx = build(&k, n, closed, None);
        update_route_schedule(&mut ctx, &SimpleActivityCost {}, m.as_ref());
        let target = act(3, Some(9), k.s3);
        let est = {
            let prev = ctx.route.tour.get(leg).unwrap();
            let next = ctx.route.tour.get(leg + 1);
            let actx = ActivityContext { index: leg, prev, target: &target, next };
            obj.estimate_route(&ctx) + obj.estimate_activity(&ctx, &actx)
        };
        // an empty tour is not part of the solution
        let before = InsertionContext { solution: SolutionContext { routes: if n == 0 { vec![] } else { vec![ctx] } } }.get_total_cost().unwrap();
        let mut after_ctx = build(&k, n, closed, Some(leg + 1));
        update_route_schedule(&mut after_ctx, &SimpleActivityCost {}, m.as_ref());
        let after = InsertionContext { solution: SolutionContext { routes: vec![after_ctx] } }.get_total_cost().unwrap();
        assert!(est == after - before, "post_quoted_cost_equals_change_of_total_cost_without_waiting");
    }
    /// (vehicle per distance, vehicle per time, driver per distance, driver per time): all different, so that a mixed-up rate shows
    const RATES_A: (Float, Float, Float, Float) = (2., 3., 1., 4.);
    const RATES_B: (Float, Float, Float, Float) = (0., 1., 5., 0.);
    #[kani::proof] #[kani::unwind(7)] fn cost_n0_closed() { cost_estimate_equals_delta(0, true, 0, RATES_A) }
    #[kani::proof] #[kani::unwind(7)] fn cost_n0_open() { cost_estimate_equals_delta(0, false, 0, RATES_A) }
    #[kani::proof] #[kani::unwind(7)] fn cost_n1_closed_leg0() { cost_estimate_equals_delta(1, true, 0, RATES_A) }
    #[kani::proof] #[kani::unwind(7)] fn cost_n1_closed_leg1() { cost_estimate_equals_delta(1, true, 1, RATES_A) }
    #[kani::proof] #[kani::unwind(7)] fn cost_n1_open_leg0() { cost_estimate_equals_delta(1, false, 0, RATES_A) }
    #[kani::proof] #[kani::unwind(7)] fn cost_n1_open_last() { cost_estimate_equals_delta(1, false, 1, RATES_A) }
    #[kani::proof] #[kani::unwind(7)] fn cost_n1_closed_leg0_rates_b() { cost_estimate_equals_delta(1, true, 0, RATES_B) }
}
