// U15a + L15 – the reducer used by parallel insertion evaluation and the tree-reduction lemma.
#![allow(unused_imports, dead_code)]
use vstd::prelude::*;
use vstd::std_specs::cmp::*;
use core::cmp::Ordering;
verus! {

// ---------------------------------------------------------------- environment (assumed)
/// insertion cost: only its total preorder matters here (rank); that the real comparison *is* a total
/// preorder (lexicographic total_cmp over zero-padded vectors) is unit U09a + lemma L09
pub struct InsertionCost { pub rank: int, pub payload: int }
pub open spec fn ord_of(a: int, b: int) -> Ordering { if a < b { Ordering::Less } else if a == b { Ordering::Equal } else { Ordering::Greater } }
impl PartialEqSpecImpl for InsertionCost {
    open spec fn obeys_eq_spec() -> bool { true }
    open spec fn eq_spec(&self, o: &InsertionCost) -> bool { self.rank == o.rank }
}
impl PartialOrdSpecImpl for InsertionCost {
    open spec fn obeys_partial_cmp_spec() -> bool { true }
    open spec fn partial_cmp_spec(&self, o: &InsertionCost) -> Option<Ordering> { Some(ord_of(self.rank, o.rank)) }
}
impl core::cmp::PartialEq for InsertionCost { #[verifier::external_body] fn eq(&self, o: &Self) -> (r: bool) { unimplemented!() } }
impl core::cmp::PartialOrd for InsertionCost { #[verifier::external_body] fn partial_cmp(&self, o: &Self) -> (r: Option<Ordering>) { unimplemented!() } }
#[derive(Clone, Copy)] pub struct ViolationCode(pub i32);
impl PartialEqSpecImpl for ViolationCode {
    open spec fn obeys_eq_spec() -> bool { true }
    open spec fn eq_spec(&self, o: &ViolationCode) -> bool { self.0 == o.0 }
}
impl core::cmp::PartialEq for ViolationCode { #[verifier::external_body] fn eq(&self, o: &Self) -> (r: bool) { unimplemented!() } }
impl ViolationCode { pub fn unknown() -> (r: Self) ensures r == ViolationCode(-1i32) { Self(-1) } }
/// real InsertionSuccess carries job, activities, actor: opaque payload here
pub struct InsertionSuccess { pub cost: InsertionCost, pub id: int }
pub struct InsertionFailure { pub constraint: ViolationCode, pub stopped: bool }
pub enum InsertionResult { Success(InsertionSuccess), Failure(InsertionFailure) }
pub struct InsertionContext { pub token: int }
pub enum Either<L, R> { Left(L), Right(R) }

// ---------------------------------------------------------------- specification of the reducer (from the property: minimal cost, success beats failure)
/// cost view of a result: None = failure, Some(rank) = success with that cost rank
pub open spec fn cost_of(r: InsertionResult) -> Option<int> {
    match r { InsertionResult::Success(s) => Some(s.cost.rank), InsertionResult::Failure(_) => None }
}
pub open spec fn min_opt(a: Option<int>, b: Option<int>) -> Option<int> {
    match (a, b) { (None, _) => b, (_, None) => a, (Some(x), Some(y)) => Some(if x <= y { x } else { y }) }
}
/// the reducer returns one of its arguments and that one has the minimal cost (which one on a tie is left open:
/// the property speaks about the cost vector only)
pub open spec fn red_rel(left: InsertionResult, right: InsertionResult, out: InsertionResult) -> bool {
    (out == left || out == right) && cost_of(out) == min_opt(cost_of(left), cost_of(right))
}

impl InsertionResult {
//@extract vrp-core/src/construction/heuristics/insertions.rs :: impl InsertionResult/fn choose_best_result ret=r vis=private
//@| ensures red_rel(left, right, r),
//@end
}

pub struct BestResultSelector {}
impl BestResultSelector {
//@extract vrp-core/src/construction/heuristics/selectors.rs :: impl ResultSelector for BestResultSelector/fn select_insertion ret=r vis=private
//@| ensures red_rel(left, right, r),
//@subst "_: &InsertionContext" => "_ctx: &InsertionContext" count=1
//@end

//@extract vrp-core/src/construction/heuristics/selectors.rs :: trait ResultSelector/fn select_cost ret=r vis=private
//@| ensures match r { Either::Left(x) => x == left && left.rank <= right.rank, Either::Right(x) => x == right && right.rank <= left.rank },
//@end
}

// ---------------------------------------------------------------- L15: every fold/reduce tree gives the minimum
pub open spec fn red_ok(f: spec_fn(InsertionResult, InsertionResult) -> InsertionResult) -> bool {
    forall|a: InsertionResult, b: InsertionResult| red_rel(a, b, #[trigger] f(a, b))
}
/// any way rayon may split, fold and reduce: a binary tree whose leaves are the evaluated items (in any arrangement)
/// or the identity (`InsertionResult::make_failure()`, itself a Failure leaf)
pub enum Tree { Leaf(InsertionResult), Node(Box<Tree>, Box<Tree>) }
pub open spec fn eval(t: Tree, f: spec_fn(InsertionResult, InsertionResult) -> InsertionResult) -> InsertionResult
    decreases t
{ match t { Tree::Leaf(r) => r, Tree::Node(l, r) => f(eval(*l, f), eval(*r, f)) } }
pub open spec fn leaves_min(t: Tree) -> Option<int>
    decreases t
{ match t { Tree::Leaf(r) => cost_of(r), Tree::Node(l, r) => min_opt(leaves_min(*l), leaves_min(*r)) } }
pub open spec fn is_leaf_of(x: InsertionResult, t: Tree) -> bool
    decreases t
{ match t { Tree::Leaf(r) => r == x, Tree::Node(l, r) => is_leaf_of(x, *l) || is_leaf_of(x, *r) } }

/// for ANY reducer satisfying the contract proved above for choose_best_result / select_insertion:
/// the result of any reduction tree is one of the leaves and its cost is the minimum over all leaves
pub proof fn lemma_tree_reduce_is_min(t: Tree, f: spec_fn(InsertionResult, InsertionResult) -> InsertionResult)
    requires red_ok(f),
    ensures cost_of(eval(t, f)) == leaves_min(t), is_leaf_of(eval(t, f), t),
    decreases t
{
    match t {
        Tree::Node(l, r) => {
            lemma_tree_reduce_is_min(*l, f); lemma_tree_reduce_is_min(*r, f);
            assert(red_rel(eval(*l, f), eval(*r, f), f(eval(*l, f), eval(*r, f))));
        }
        _ => {}
    }
}
/// min_opt is associative, commutative and idempotent with identity None: leaves_min depends only on the set of leaf costs,
/// so every partition / order chosen by the thread pool yields the same minimal cost as a sequential left fold
pub proof fn lemma_min_opt_acu(a: Option<int>, b: Option<int>, c: Option<int>)
    ensures min_opt(a, b) == min_opt(b, a), min_opt(min_opt(a, b), c) == min_opt(a, min_opt(b, c)), min_opt(a, None) == a, min_opt(a, a) == a,
{}

// vacuity guard: must be REJECTED
pub proof fn vacuity_reducer(a: InsertionResult, b: InsertionResult, c: InsertionResult)
    requires a is Success, b is Success, red_rel(a, b, c),
{ assert(c == a); }

} // verus!
fn main() {}
