// U02d – clustering_reader::get_filter_policy (vrp-pragmatic, verbatim): the job filter handed to vicinity clustering keeps out
// every job named by a relation (such a job is placed by its lock; admitted to a cluster as well it would be served twice) and
// every job the user excluded, and nothing else.
#![allow(dead_code, unused_macros, unused_variables, unused_imports)]
const VERIF_MAP_CAP: usize = 8;
#[path = "@VERIF_ENV@/collections_fixed_n.rs"]
mod verif_env;
use verif_env::HashSet;
#[path = "@VERIF_ENV@/strings.rs"]
mod verif_strings;
use verif_strings::String;
const VERIF_VEC_CAP: usize = 4;
#[path = "@VERIF_ENV@/vec_fixed.rs"]
mod verif_vec;
use verif_vec::Vec;
#[path = "@VERIF_ENV@/eager.rs"]
mod verif_eager;
use verif_eager::FlatMapEager;
use std::sync::Arc;

// ------------------------------------------------------------------ environment (assumed)
pub struct Relation { pub jobs: Vec<String> }
pub struct Plan { pub relations: Option<Vec<Relation>> }
pub struct ApiProblem { pub plan: Plan }
pub struct VicinityFilteringPolicy { pub exclude_job_ids: Vec<String> }
/// core job reduced to its id dimension (real: Job -> Dimensions -> JobIdDimension::get_job_id)
pub struct Job { pub id: Option<String>, pub has_id: u8 }
impl Job { pub fn dimens(&self) -> &Job { self } pub fn get_job_id(&self) -> Option<&String> { if self.has_id != 0 { self.id.as_ref() } else { None } } }
pub struct Actor { pub tag: u8 }

// ------------------------------------------------------------------ code under contract (verbatim from /repo)
//@extract vrp-core/src/construction/clustering/vicinity/mod.rs :: struct FilterPolicy
//@end
//@extract vrp-pragmatic/src/format/problem/clustering_reader.rs :: fn get_filter_policy
//@subst ".flat_map(" => ".flat_map_eager(" count=2
//@end

#[cfg(kani)]
mod h {
    use super::*;
    const JOB1: u8 = 4; const JOB2: u8 = 5;
    /// any id of the table's first eight
    fn id() -> String { let i: u8 = kani::any(); kani::assume(i < 8); String(i) }
    fn relation() -> Relation { Relation { jobs: [id(), id()].into_iter().collect() } }
    fn job() -> Job { let has_id: u8 = kani::any(); kani::assume(has_id <= 1); Job { id: Some(id()), has_id } }
    fn named(rels: &[[String; 2]], j: &Job) -> bool { j.has_id != 0 && rels.iter().any(|r| r.iter().any(|x| Some(x) == j.id.as_ref())) }

    fn check(relations: Option<[[String; 2]; 2]>, exclude: Option<[String; 2]>) {
        let rel_ids: &[[String; 2]] = match &relations { Some(r) => &r[..], None => &[] };
        let problem = ApiProblem { plan: Plan { relations: relations.as_ref().map(|rs| rs.iter().map(|r| Relation { jobs: r.iter().cloned().collect() }).collect()) } };
        let filtering = exclude.as_ref().map(|e| VicinityFilteringPolicy { exclude_job_ids: e.iter().cloned().collect() });
        let policy = get_filter_policy(&problem, filtering.as_ref());
        let j = job();
        let in_relation = named(rel_ids, &j);
        let excluded = j.has_id != 0 && exclude.as_ref().is_some_and(|e| e.iter().any(|x| Some(x) == j.id.as_ref()));
        let admitted = (policy.job_filter)(&j);
        if in_relation { assert!(!admitted, "post_job_named_by_a_relation_is_never_clustered"); }
        if excluded { assert!(!admitted, "post_job_excluded_by_the_user_is_never_clustered"); }
        if !in_relation && !excluded { assert!(admitted, "post_only_listed_jobs_are_kept_out"); }
        kani::cover!(relations.is_none() || (in_relation && !excluded)); kani::cover!(exclude.is_none() || (excluded && !in_relation)); kani::cover!(admitted && j.has_id != 0); kani::cover!(admitted && j.has_id == 0);
    }

    /// relations and a user filter together (the user's list extends, never replaces, the relation ids)
    #[kani::proof] #[kani::unwind(12)]
    fn relation_jobs_and_excluded_jobs_are_kept_out_with_filtering() { check(Some([[id(), id()], [id(), id()]]), Some([id(), id()])) }
    /// relations, no user filter
    #[kani::proof] #[kani::unwind(12)]
    fn relation_jobs_are_kept_out_without_filtering() { check(Some([[id(), id()], [id(), id()]]), None) }
    /// user filter, no relations
    #[kani::proof] #[kani::unwind(12)]
    fn excluded_jobs_are_kept_out_without_relations() { check(None, Some([id(), id()])) }
}
