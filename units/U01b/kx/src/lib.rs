// U01b/U01c – capacity gate `has_demand_violation` + the load algebra of models/common/load.rs (all verbatim)
#![allow(dead_code, unused_variables, unused_imports)]
use std::any::Any;
use std::cmp::Ordering;
use std::fmt::{Debug, Display, Formatter};
use std::iter::Sum;
use std::ops::{Add, ControlFlow, Mul, Sub};
use std::sync::Arc;

pub type Float = f64;

// ------------------------------------------------------------------ code under contract (verbatim from /repo)
//@extract rosomaxa/src/utils/types.rs :: trait UnwrapValue
//@end
//@extract rosomaxa/src/utils/types.rs :: impl<T> UnwrapValue for ControlFlow<T, T>
//@end

//@extract vrp-core/src/models/common/load.rs :: *
//@end

//@extract vrp-core/src/construction/features/capacity.rs :: fn has_demand_violation
//@end

// ------------------------------------------------------------------ environment (assumed surroundings, NOT under proof)
/// real: Dimensions type map (custom_dimension! VehicleCapacity)
pub struct Dimensions { pub capacity: Option<Box<dyn Any + Send + Sync>> }
impl Dimensions {
    pub fn get_vehicle_capacity<T: LoadOps>(&self) -> Option<&T> { self.capacity.as_ref().and_then(|c| c.downcast_ref::<T>()) }
}
pub struct Vehicle { pub dimens: Dimensions }
pub struct Actor { pub vehicle: Arc<Vehicle> }
pub struct Route { pub actor: Arc<Actor> }
/// real: RouteState type map (custom_activity_state! CurrentCapacity / MaxFutureCapacity / MaxPastCapacity);
/// what the three vectors *mean* is unit U05c + lemma L01
pub struct RouteState { pub current: Box<dyn Any>, pub max_future: Box<dyn Any>, pub max_past: Box<dyn Any> }
impl RouteState {
    pub fn get_current_capacity_at<T: LoadOps>(&self, idx: usize) -> Option<&T> { self.current.downcast_ref::<Vec<T>>().and_then(|v| v.get(idx)) }
    pub fn get_max_future_capacity_at<T: LoadOps>(&self, idx: usize) -> Option<&T> { self.max_future.downcast_ref::<Vec<T>>().and_then(|v| v.get(idx)) }
    pub fn get_max_past_capacity_at<T: LoadOps>(&self, idx: usize) -> Option<&T> { self.max_past.downcast_ref::<Vec<T>>().and_then(|v| v.get(idx)) }
}
pub struct RouteContext { pub route: Route, pub state: RouteState }
impl RouteContext {
    pub fn route(&self) -> &Route { &self.route }
    pub fn state(&self) -> &RouteState { &self.state }
}

// ------------------------------------------------------------------ contract harnesses
#[cfg(kani)]
mod h {
    use super::*;
    const N: usize = LOAD_DIMENSION_SIZE;
    /// is_valid(): widest box used in the capacity gate without i32 overflow: sums of up to 4 terms of |v| <= 2^28
    const B: i32 = 1 << 28;
    fn v() -> i32 { let x: i32 = kani::any(); kani::assume(x >= -B && x <= B); x }

    // ---------------- SingleDimLoad: function == spec function (complete, loop-free)
    #[kani::proof]
    fn single_ops_equal_spec() {
        let (a, b) = (v(), v());
        let (x, y) = (SingleDimLoad::new(a), SingleDimLoad::new(b));
        assert!((x + y).value == a + b, "post_single_add");
        assert!((x - y).value == a - b, "post_single_sub");
        assert!(x.max_load(y).value == if a >= b { a } else { b }, "post_single_max_load");
        assert!(x.can_fit(&y) == (a >= b), "post_single_can_fit");
        assert!(x.is_not_empty() == (a != 0), "post_single_is_not_empty");
        assert!(x.partial_cmp(&y) == Some(a.cmp(&b)) && (x == y) == (a == b), "post_single_order");
        assert!(SingleDimLoad::default().value == 0, "post_single_default_is_zero");
        let d = Demand::<SingleDimLoad> { pickup: (x, y), delivery: (SingleDimLoad::new(v()), SingleDimLoad::new(v())) };
        assert!(d.change().value == a + b - d.delivery.0.value - d.delivery.1.value, "post_demand_change");
        kani::cover!(a > b);
    }

    // ---------------- MultiDimLoad: function == spec function over [i32; 8] (complete: every loop is the constant 8)
    fn any_multi() -> MultiDimLoad {
        let load: [i32; N] = core::array::from_fn(|_| v());
        let size: usize = kani::any();
        kani::assume(size <= N);
        MultiDimLoad { load, size }
    }
    #[kani::proof]
    #[kani::unwind(10)]
    fn multi_add_sub_elementwise() {
        let (x, y) = (any_multi(), any_multi());
        let (s, d) = (x + y, x - y);
        let mut i = 0;
        while i < N {
            assert!(s.load[i] == x.load[i] + y.load[i], "post_multi_add_elementwise");
            assert!(d.load[i] == x.load[i] - y.load[i], "post_multi_sub_elementwise");
            i += 1;
        }
        assert!(s.size == x.size.max(y.size) && d.size == x.size.max(y.size), "post_multi_size_is_max");
    }
    #[kani::proof]
    #[kani::unwind(10)]
    fn multi_max_fit_elementwise() {
        let (x, y) = (any_multi(), any_multi());
        let m = x.max_load(y);
        let mut all_ge = true;
        let mut any_nz = false;
        let mut i = 0;
        while i < N {
            assert!(m.load[i] == if x.load[i] >= y.load[i] { x.load[i] } else { y.load[i] }, "post_multi_max_load_elementwise");
            all_ge = all_ge && x.load[i] >= y.load[i];
            any_nz = any_nz || x.load[i] != 0;
            i += 1;
        }
        assert!(x.can_fit(&y) == all_ge, "post_multi_can_fit_iff_every_dimension_fits");
        assert!(!any_nz || x.is_not_empty(), "post_multi_nonzero_is_not_empty");
        kani::cover!(all_ge);
        kani::cover!(!all_ge);
    }
    #[kani::proof]
    #[kani::unwind(12)]
    fn multi_new_as_vec_roundtrip() {
        let n: usize = kani::any();
        kani::assume(n <= 3);
        let xs = [v(), v(), v()];
        let data: Vec<i32> = match n { 0 => vec![], 1 => vec![xs[0]], 2 => vec![xs[0], xs[1]], _ => vec![xs[0], xs[1], xs[2]] };
        let m = MultiDimLoad::new(data);
        assert!(m.size == n, "post_multi_new_size");
        let mut i = 0;
        while i < N { assert!(m.load[i] == if i < n { xs[i] } else { 0 }, "post_multi_new_pads_with_zero"); i += 1; }
        let back = m.as_vec();
        if n == 0 { assert!(back.len() == 1 && back[0] == 0, "post_multi_as_vec_empty"); }
        else { assert!(back.len() == n && back[0] == xs[0], "post_multi_as_vec_prefix"); }
        let z = MultiDimLoad::default();
        assert!(z.size == 0, "post_multi_default_is_zero");
        let mut i = 0;
        while i < N { assert!(z.load[i] == 0, "post_multi_default_is_zero"); i += 1; }
    }

    // ---------------- capacity gate
    /// what the property demands of an accepted insertion after `pivot` (from C01/L01, not from the code):
    ///  static delivery d0 rides from the interval start to the pivot  -> max load so far + d0 fits
    ///  static pickup  p0 rides from the pivot to the interval end     -> max load ahead + p0 fits
    ///  net dynamic change c applies from the pivot on                 -> max load ahead + c and load at pivot + c fit
    struct Gate<T> { r: Option<bool>, stopped: bool, has_cap: bool, has_demand: bool, del_ok: bool, pick_ok: bool, chg_ok: bool, d0_nz: bool, p0_nz: bool, c_nz: bool, _t: std::marker::PhantomData<T> }

    fn gate<T: LoadOps>(any_t: fn() -> T, fits: fn(&T, &T) -> bool, nz: fn(&T) -> bool) -> Gate<T> {
        let has_cap: bool = kani::any();
        let has_demand: bool = kani::any();
        let stopped: bool = kani::any();
        let cap = any_t();
        let demand = Demand::<T> { pickup: (any_t(), any_t()), delivery: (any_t(), any_t()) };
        // cached state: two activities, pivot may also point outside (absent state counts as zero load)
        let (cur, fut, past) = ([any_t(), any_t()], [any_t(), any_t()], [any_t(), any_t()]);
        let pivot: usize = kani::any();
        kani::assume(pivot <= 2);
        let at = |xs: &[T; 2]| if pivot < 2 { xs[pivot] } else { T::default() };
        let route_ctx = RouteContext {
            route: Route { actor: Arc::new(Actor { vehicle: Arc::new(Vehicle { dimens: Dimensions { capacity: if has_cap { Some(Box::new(cap)) } else { None } } }) }) },
            state: RouteState { current: Box::new(cur.to_vec()), max_future: Box::new(fut.to_vec()), max_past: Box::new(past.to_vec()) },
        };
        let r = has_demand_violation(&route_ctx, pivot, if has_demand { Some(&demand) } else { None }, stopped);
        let c = demand.pickup.0 + demand.pickup.1 - demand.delivery.0 - demand.delivery.1;
        Gate {
            r, stopped, has_cap, has_demand,
            del_ok: fits(&cap, &(at(&past) + demand.delivery.0)),
            pick_ok: fits(&cap, &(at(&fut) + demand.pickup.0)),
            chg_ok: fits(&cap, &(at(&fut) + c)) && fits(&cap, &(at(&cur) + c)),
            d0_nz: nz(&demand.delivery.0), p0_nz: nz(&demand.pickup.0), c_nz: nz(&c), _t: Default::default(),
        }
    }

    fn gate_contract<T>(g: &Gate<T>) {
        if !g.has_demand { assert!(g.r.is_none(), "post_no_demand_is_accepted"); return; }
        if !g.has_cap { assert!(g.r == Some(g.stopped), "post_demand_without_capacity_is_rejected"); return; }
        // soundness (C01): accepted => every part of the demand that is actually present fits
        if g.r.is_none() {
            assert!(!g.d0_nz || g.del_ok, "post_accept_implies_static_delivery_fits_past_max");
            assert!(!g.p0_nz || g.pick_ok, "post_accept_implies_static_pickup_fits_future_max");
            assert!(!g.c_nz || g.chg_ok, "post_accept_implies_dynamic_change_fits");
        }
        // converse (C06): everything fits => accepted
        if g.del_ok && g.pick_ok && g.chg_ok { assert!(g.r.is_none(), "post_everything_fits_is_accepted"); }
        // pruning flag: `stopped` may be raised only for a static delivery that does not fit (it cannot fit later either)
        if g.r == Some(true) { assert!(g.stopped && !g.del_ok, "post_stop_only_for_unfittable_static_delivery"); }
        kani::cover!(g.r.is_none());
        kani::cover!(g.r == Some(false));
        kani::cover!(g.r == Some(true));
    }

    #[kani::proof]
    fn capacity_gate_single() {
        gate_contract(&gate::<SingleDimLoad>(|| SingleDimLoad::new(v()), |c, x| c.value >= x.value, |x| x.value != 0));
    }
    #[kani::proof]
    #[kani::unwind(10)]
    fn capacity_gate_multi() {
        fn fits(c: &MultiDimLoad, x: &MultiDimLoad) -> bool { let mut ok = true; let mut i = 0; while i < N { ok = ok && c.load[i] >= x.load[i]; i += 1; } ok }
        fn nz(x: &MultiDimLoad) -> bool { let mut r = false; let mut i = 0; while i < N { r = r || x.load[i] != 0; i += 1; } r }
        gate_contract(&gate::<MultiDimLoad>(any_multi, fits, nz));
    }
}
