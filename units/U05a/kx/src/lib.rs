// U01e/U05a – feature combinator: hard-constraint gate consults every constraint; stale-flag protocol of cached route state
#![allow(dead_code, unused_variables, unused_imports)]
use std::ops::ControlFlow;
use std::sync::Arc;
use std::cell::RefCell;
#[derive(Clone, Copy, Debug, PartialEq, Eq)] pub struct ViolationCode(pub i32);
#[derive(Clone, Debug, PartialEq, Eq)] pub struct ConstraintViolation { pub code: ViolationCode, pub stopped: bool }
#[derive(Clone, PartialEq, Eq, Debug)] pub struct Job(pub u8);
pub struct MoveContext<'a> { pub tag: &'a u8 }
pub struct Tour { pub n: usize }
impl Tour { pub fn job_activity_count(&self) -> usize { self.n } }
pub struct Route { pub tour: Tour }
#[derive(Default)] pub struct RouteState { pub cleared: usize, pub writes: Vec<u8> }
impl RouteState { pub fn clear(&mut self) { self.cleared += 1; self.writes.clear(); } }
pub struct RouteCache { pub is_stale: bool }
pub struct RouteContext { route: Route, state: RouteState, cache: RouteCache }
pub struct SolutionContext { pub required: Vec<Job>, pub ignored: Vec<Job>, pub unassigned: Vec<Job>, pub routes: Vec<RouteContext> }
pub trait FeatureConstraint { fn evaluate(&self, move_ctx: &MoveContext<'_>) -> Option<ConstraintViolation>; }
pub trait FeatureState {
    fn accept_insertion(&self, solution_ctx: &mut SolutionContext, route_index: usize, job: &Job);
    fn accept_route_state(&self, route_ctx: &mut RouteContext);
    fn accept_solution_state(&self, solution_ctx: &mut SolutionContext);
}

// ------------------------------------------------------------------ code under contract (verbatim from /repo)
//@extract rosomaxa/src/utils/types.rs :: trait UnwrapValue
//@end
//@extract rosomaxa/src/utils/types.rs :: impl<T> UnwrapValue for ControlFlow<T, T>
//@end
impl RouteContext {
//@extract vrp-core/src/construction/heuristics/context.rs :: impl RouteContext/fn route
//@end
//@extract vrp-core/src/construction/heuristics/context.rs :: impl RouteContext/fn state
//@end
//@extract vrp-core/src/construction/heuristics/context.rs :: impl RouteContext/fn as_mut
//@end
//@extract vrp-core/src/construction/heuristics/context.rs :: impl RouteContext/fn route_mut
//@end
//@extract vrp-core/src/construction/heuristics/context.rs :: impl RouteContext/fn state_mut
//@end
//@extract vrp-core/src/construction/heuristics/context.rs :: impl RouteContext/fn is_stale
//@end
//@extract vrp-core/src/construction/heuristics/context.rs :: impl RouteContext/fn mark_stale
//@end
}
//@extract vrp-core/src/construction/enablers/feature_combinator.rs :: fn accept_insertion_with_states
//@end
//@extract vrp-core/src/construction/enablers/feature_combinator.rs :: fn accept_route_state_with_states
//@end
//@extract vrp-core/src/construction/enablers/feature_combinator.rs :: fn accept_solution_state_with_states
//@end
//@extract vrp-core/src/construction/enablers/feature_combinator.rs :: fn evaluate_with_constraints
//@end
//@extract vrp-core/src/construction/enablers/feature_combinator.rs :: fn has_changes
//@end

#[cfg(kani)]
mod h {
    use super::*;
    struct C { id: u8, res: Option<ConstraintViolation>, log: Arc<RefCell<Vec<u8>>> }
    impl FeatureConstraint for C { fn evaluate(&self, _: &MoveContext<'_>) -> Option<ConstraintViolation> { self.log.borrow_mut().push(self.id); self.res.clone() } }
    fn any_res() -> Option<ConstraintViolation> { if kani::any() { Some(ConstraintViolation { code: ViolationCode(kani::any()), stopped: kani::any() }) } else { None } }

    /// C01: the combined gate accepts iff EVERY constraint accepts; otherwise it returns the first violation in list
    /// order, and every constraint before it was consulted exactly once, in order
    fn gate_consults<const NC: usize>() {
        let n = NC;
        let log = Arc::new(RefCell::new(Vec::new()));
        let rs = [any_res(), any_res(), any_res()];
        let mut cs: Vec<Arc<dyn FeatureConstraint>> = Vec::new();
        let mut i = 0;
        while i < n { cs.push(Arc::new(C { id: i as u8, res: rs[i].clone(), log: log.clone() })); i += 1; }
        let tag = 0u8;
        let r = evaluate_with_constraints(&cs, &MoveContext { tag: &tag });
        let mut first = n;
        let mut i = n;
        while i > 0 { i -= 1; if rs[i].is_some() { first = i; } }
        assert!(r.is_none() == (first == n), "post_gate_accepts_iff_every_constraint_accepts");
        if first < n { assert!(r == rs[first], "post_gate_returns_first_violation"); }
        let l = log.borrow();
        assert!(l.len() == if first == n { n } else { first + 1 }, "post_every_constraint_before_first_violation_consulted_once");
        let mut i = 0;
        while i < l.len() { assert!(l[i] as usize == i, "post_constraints_consulted_in_order"); i += 1; }
        kani::cover!(first == n);
    }
    #[kani::proof] #[kani::unwind(5)] fn gate_consults_all_until_first_violation_0() { gate_consults::<0>() }
    #[kani::proof] #[kani::unwind(5)] fn gate_consults_all_until_first_violation_2() { gate_consults::<2>() }
    #[kani::proof] #[kani::unwind(5)] fn gate_consults_all_until_first_violation_3() { gate_consults::<3>() }

    struct S { id: u8 }
    impl FeatureState for S {
        fn accept_insertion(&self, _: &mut SolutionContext, _: usize, _: &Job) {}
        fn accept_route_state(&self, route_ctx: &mut RouteContext) { route_ctx.state_mut().writes.push(self.id); }
        fn accept_solution_state(&self, _: &mut SolutionContext) {}
    }
    /// C05: a stale route gets its cache cleared and every state hook run exactly once, in order, and is fresh afterwards;
    /// a fresh route is left untouched; every mutable accessor marks the context stale again
    #[kani::proof] #[kani::unwind(5)]
    fn accept_route_state_protocol() {
        let stale: bool = kani::any();
        let mut rc = RouteContext { route: Route { tour: Tour { n: kani::any() } }, state: RouteState { cleared: 0, writes: vec![9] }, cache: RouteCache { is_stale: stale } };
        let ss: Vec<Arc<dyn FeatureState>> = vec![Arc::new(S { id: 0 }), Arc::new(S { id: 1 }), Arc::new(S { id: 2 })];
        accept_route_state_with_states(&ss, &mut rc);
        assert!(!rc.is_stale(), "post_route_fresh_after_accept");
        if stale { assert!(rc.state.cleared == 1 && rc.state.writes.len() == 3 && rc.state.writes[0] == 0 && rc.state.writes[1] == 1 && rc.state.writes[2] == 2, "post_stale_route_cleared_and_every_hook_run_once_in_order"); }
        else { assert!(rc.state.cleared == 0 && rc.state.writes.len() == 1 && rc.state.writes[0] == 9, "post_fresh_route_untouched"); }
        let which: u8 = kani::any();
        match which { 0 => { rc.route_mut(); } 1 => { rc.state_mut(); } _ => { rc.as_mut(); } }
        assert!(rc.is_stale(), "post_mutable_access_marks_stale");
        kani::cover!(stale);
        kani::cover!(!stale);
    }

    /// solution-level hooks: a hook may promote jobs between buckets (changes the bucket sizes) a bounded number of
    /// times; the pass restarts until one full pass runs without change
    struct P { id: u8, budget: RefCell<u8>, log: Arc<RefCell<Vec<u8>>> }
    impl FeatureState for P {
        fn accept_insertion(&self, _: &mut SolutionContext, _: usize, _: &Job) {}
        fn accept_route_state(&self, _: &mut RouteContext) {}
        fn accept_solution_state(&self, s: &mut SolutionContext) {
            self.log.borrow_mut().push(self.id);
            let mut b = self.budget.borrow_mut();
            if *b > 0 { *b -= 1; if let Some(j) = s.required.pop() { s.ignored.push(j); } else { s.required.push(Job(0)); } }
        }
    }
    fn solution_state_protocol(b0: u8, b1: u8) {
        let log = Arc::new(RefCell::new(Vec::new()));
        let ss: Vec<Arc<dyn FeatureState>> = vec![Arc::new(P { id: 0, budget: RefCell::new(b0), log: log.clone() }), Arc::new(P { id: 1, budget: RefCell::new(b1), log: log.clone() })];
        let route = |stale: bool| RouteContext { route: Route { tour: Tour { n: 0 } }, state: RouteState::default(), cache: RouteCache { is_stale: stale } };
        let mut s = SolutionContext { required: vec![Job(1)], ignored: vec![], unassigned: vec![], routes: vec![route(kani::any()), route(kani::any())] };
        accept_solution_state_with_states(&ss, &mut s);
        let l = log.borrow();
        let n = l.len();
        assert!(n >= 2 && l[n - 2] == 0 && l[n - 1] == 1, "post_last_pass_runs_every_hook_in_order");
        assert!(n == 2 + (b0 as usize) * 1 + (b1 as usize) * 2, "post_pass_restarts_after_every_bucket_change");
        assert!(!s.routes[0].is_stale() && !s.routes[1].is_stale(), "post_all_routes_fresh_at_exit");
        assert!(s.required.len() + s.ignored.len() + s.unassigned.len() >= 1, "post_no_job_lost_by_the_driver");
    }
    #[kani::proof] #[kani::unwind(8)] fn accept_solution_state_protocol_00() { solution_state_protocol(0, 0) }
    #[kani::proof] #[kani::unwind(8)] fn accept_solution_state_protocol_10() { solution_state_protocol(1, 0) }
    #[kani::proof] #[kani::unwind(8)] fn accept_solution_state_protocol_01() { solution_state_protocol(0, 1) }
    #[kani::proof] #[kani::unwind(8)] fn accept_solution_state_protocol_11() { solution_state_protocol(1, 1) }

    /// accept_insertion: every hook sees the insertion exactly once, in order
    struct I { id: u8, log: Arc<RefCell<Vec<(u8, usize, u8)>>> }
    impl FeatureState for I {
        fn accept_insertion(&self, _: &mut SolutionContext, route_index: usize, job: &Job) { self.log.borrow_mut().push((self.id, route_index, job.0)); }
        fn accept_route_state(&self, _: &mut RouteContext) {}
        fn accept_solution_state(&self, _: &mut SolutionContext) {}
    }
    #[kani::proof] #[kani::unwind(5)]
    fn accept_insertion_protocol() {
        let log = Arc::new(RefCell::new(Vec::new()));
        let ss: Vec<Arc<dyn FeatureState>> = vec![Arc::new(I { id: 0, log: log.clone() }), Arc::new(I { id: 1, log: log.clone() })];
        let route = || RouteContext { route: Route { tour: Tour { n: 1 } }, state: RouteState::default(), cache: RouteCache { is_stale: false } };
        let mut s = SolutionContext { required: vec![], ignored: vec![], unassigned: vec![], routes: vec![route(), route()] };
        let idx: usize = kani::any();
        kani::assume(idx < 2);
        let job = Job(kani::any());
        accept_insertion_with_states(&ss, &mut s, idx, &job);
        let l = log.borrow();
        assert!(l.len() == 2 && l[0] == (0, idx, job.0) && l[1] == (1, idx, job.0), "post_every_hook_sees_the_insertion_once_in_order");
    }
}
