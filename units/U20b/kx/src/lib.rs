// U20b – additive objectives "number of unassigned jobs" and "number of tours": the quoted insertion cost equals the change
// of the objective value once the insertion is carried out (minimize_unassigned.rs, fleet_usage.rs: verbatim)
#![allow(dead_code, unused_variables, unused_imports)]
#[path = "@VERIF_ENV@/collections.rs"]
mod verif_env;
use verif_env::HashMap;
use std::iter::empty;
use std::sync::Arc;

// ------------------------------------------------------------------ environment (assumed)
pub type Float = f64;
pub type Cost = f64;
pub struct GenericError;
pub type GenericResult<T> = Result<T, GenericError>;
#[derive(Clone, PartialEq, Eq, Debug)] pub struct Job(pub u8);
pub struct Tour { pub jobs: Vec<Job> }
impl Tour { pub fn job_count(&self) -> usize { self.jobs.len() } }
pub struct Route { pub tour: Tour }
pub struct RouteContext { pub route: Route }
impl RouteContext { pub fn route(&self) -> &Route { &self.route } }
pub struct SolutionContext { pub required: Vec<Job>, pub ignored: Vec<Job>, pub unassigned: HashMap<Job, u8>, pub routes: Vec<RouteContext> }
pub struct InsertionContext { pub solution: SolutionContext }
pub enum MoveContext<'a> { Route { solution_ctx: &'a SolutionContext, route_ctx: &'a RouteContext, job: &'a Job }, Activity { solution_ctx: &'a SolutionContext, route_ctx: &'a RouteContext } }
pub trait FeatureObjective: Send + Sync { fn fitness(&self, solution: &InsertionContext) -> Cost; fn estimate(&self, move_ctx: &MoveContext<'_>) -> Cost; }
/// real: Feature { name, constraint, objective, state }; FeatureBuilder checks the name; only the objective matters here
pub struct Feature { pub objective: Option<Arc<dyn FeatureObjective>> }
#[derive(Default)] pub struct FeatureBuilder { objective: Option<Arc<dyn FeatureObjective>> }
impl FeatureBuilder {
    pub fn with_name(self, _: &str) -> Self { self }
    pub fn with_objective<T: FeatureObjective + 'static>(mut self, objective: T) -> Self { self.objective = Some(Arc::new(objective)); self }
    pub fn build(self) -> GenericResult<Feature> { Ok(Feature { objective: self.objective }) }
}

// ------------------------------------------------------------------ code under contract (verbatim from /repo)
//@extract vrp-core/src/utils/types.rs :: enum Either
//@end
//@extract vrp-core/src/utils/types.rs :: impl<L, R, T> Iterator for Either<L, R>
//@end
//@extract vrp-core/src/construction/features/minimize_unassigned.rs :: type UnassignedJobEstimator
//@end
//@extract vrp-core/src/construction/features/minimize_unassigned.rs :: struct MinimizeUnassignedObjective
//@end
//@extract vrp-core/src/construction/features/minimize_unassigned.rs :: impl FeatureObjective for MinimizeUnassignedObjective
//@end
//@extract vrp-core/src/construction/features/fleet_usage.rs :: fn create_minimize_tours_feature
//@end
//@extract vrp-core/src/construction/features/fleet_usage.rs :: struct FleetUsageObjective
//@end
//@extract vrp-core/src/construction/features/fleet_usage.rs :: impl FeatureObjective for FleetUsageObjective
//@end

#[cfg(kani)]
mod h {
    use super::*;
    fn route(n: usize) -> RouteContext { RouteContext { route: Route { tour: Tour { jobs: match n { 0 => vec![], 1 => vec![Job(10)], _ => vec![Job(10), Job(11)] } } } } }

    /// C20 (unassigned jobs): the quote for placing an unassigned job is -1 per job and the objective value drops by
    /// exactly that much when the job leaves the unassigned list (default estimator: 1 per job)
    #[kani::proof] #[kani::unwind(6)]
    fn unassigned_quote_equals_change() {
        let o = MinimizeUnassignedObjective { unassigned_job_estimator: Arc::new(|_, _| 1.) };
        let others: u8 = kani::any(); kani::assume(others <= 2);
        let mk = |with_job: bool| {
            let mut unassigned = HashMap::default();
            if with_job { unassigned.insert(Job(1), 0); }
            if others >= 1 { unassigned.insert(Job(2), 0); }
            if others >= 2 { unassigned.insert(Job(3), 0); }
            InsertionContext { solution: SolutionContext { required: vec![], ignored: vec![Job(7)], unassigned, routes: vec![route(1)] } }
        };
        let (before, after) = (mk(true), mk(false));
        let target = route(1);
        let quote = o.estimate(&MoveContext::Route { solution_ctx: &before.solution, route_ctx: &target, job: &Job(1) });
        assert!(quote == o.fitness(&after) - o.fitness(&before), "post_unassigned_quote_equals_change_of_objective");
        assert!(o.fitness(&before) == (others as Cost) + 1., "post_unassigned_objective_counts_unassigned_jobs");
        assert!(o.estimate(&MoveContext::Activity { solution_ctx: &before.solution, route_ctx: &target }) == 0., "post_no_activity_level_quote");
    }

    /// C20 (number of tours): the quote is 1 exactly when the insertion opens a new tour, and the objective value (number
    /// of tours in the solution) grows by exactly that much
    #[kani::proof] #[kani::unwind(6)]
    fn tours_quote_equals_change() {
        let Ok(f) = create_minimize_tours_feature("tours") else { panic!("post_feature_builds") };
        let o = f.objective.expect("post_feature_has_objective");
        let used: usize = kani::any(); kani::assume(used <= 2);
        let opens_new: bool = kani::any();
        let sol = |k: usize| InsertionContext { solution: SolutionContext { required: vec![], ignored: vec![], unassigned: HashMap::default(), routes: match k { 0 => vec![], 1 => vec![route(1)], 2 => vec![route(1), route(2)], _ => vec![route(1), route(2), route(1)] } } };
        let before = sol(used);
        let after = sol(if opens_new { used + 1 } else { used });
        // an empty route offered by the registry is not part of solution.routes before the insertion
        let target = route(if opens_new { 0 } else { 1 });
        let quote = o.estimate(&MoveContext::Route { solution_ctx: &before.solution, route_ctx: &target, job: &Job(1) });
        assert!(quote == o.fitness(&after) - o.fitness(&before), "post_tours_quote_equals_change_of_objective");
        assert!(o.fitness(&before) == used as Cost, "post_tours_objective_counts_tours");
    }
}
