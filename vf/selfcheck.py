#!/usr/bin/env python3
"""setup / self-check: tools present, extractor round-trips every source file of the repository
(every significant token of a file belongs to exactly one parsed item), splice self-test."""
import os, shutil, subprocess, sys
HERE = os.path.dirname(os.path.abspath(__file__))
sys.path.insert(0, HERE)
import extract
REPO = os.environ.get("VERIF_REPO", "/repo")
ok = True
for tool in ("verus", "cargo-kani", "cbmc"):
    if not shutil.which(tool):
        print("missing tool:", tool); ok = False
n = 0
for crate in ("rosomaxa", "vrp-core", "vrp-pragmatic", "vrp-scientific", "vrp-cli"):
    for root, _, files in os.walk(os.path.join(REPO, crate, "src")):
        for f in files:
            if not f.endswith(".rs"):
                continue
            p = os.path.join(root, f)
            try:
                s = extract.Source(p)
            except Exception as e:
                print("extractor failed on", p, e); ok = False; continue
            covered = set()
            for it in s.items:
                covered.update(range(it.first, it.last + 1))
            stray = [t for k, t in enumerate(s.toks) if k not in covered and t.kind not in ("ws", "lc", "bc") and t.text != ";"]
            if stray:
                print("extractor: tokens outside any item in", p, stray[:3]); ok = False
            n += 1
# splice self-test on a synthetic function
src = extract.Source("<mem>", "impl A { pub fn f(&mut self, x: u8) -> bool where u8: Copy { self.v.retain(|a| a != x); while x > 0 { } true } }")
it = src.find("impl A/fn f")
sp = extract.FnSplice(ret="r", vis="private", spec="ensures r", closures={1: ("|a: &u8|", "-> (k: bool) ensures k")}, loops={1: "invariant true"})
out = extract.splice_fn(src, it, sp)
want = ["fn f(&mut self, x: u8) -> (r: bool) where u8: Copy", "|a: &u8| -> (k: bool) ensures k { a != x }", "invariant true"]
outn = ' '.join(out.split())
for w in want:
    if w not in outn:
        print("splice self-test failed, missing:", w, "in", out); ok = False
os.makedirs(os.path.join(os.path.dirname(HERE), "evidence"), exist_ok=True)
os.makedirs(os.path.join(os.path.dirname(HERE), "replays"), exist_ok=True)
print(f"selfcheck: {n} source files tokenised, {'ok' if ok else 'FAILED'}")
sys.exit(0 if ok else 1)
