#!/usr/bin/env python3
"""Driver: prepares units from /repo's current working tree, runs Verus / Kani,
classifies results, writes evidence and replay files.

Exit codes of a property check: 0 = every obligation discharged (known findings
listed apart), 1 = a named obligation fails (VIOLATION line printed), 2 = the
check could not decide (lost anchor, front-end error, unsupported construct,
unsatisfied cover, timeout, memory cap) – never reported as a violation.
"""
import concurrent.futures as cf
import hashlib
import json
import os
import re
import resource
import shutil
import signal
import subprocess
import sys
import threading
import time

HERE = os.path.dirname(os.path.abspath(__file__))
VERIF = os.path.dirname(HERE)
sys.path.insert(0, HERE)
import extract  # noqa: E402

REPO = os.environ.get("VERIF_REPO", "/repo")
# development runs against a scratch copy (VERIF_REPO set to something else than /repo) or with a harness filter must not
# overwrite the evidence/replays of the real tree
OUT_ROOT = VERIF if (os.path.realpath(REPO) == "/repo" and not os.environ.get("VERIF_HARNESS")) else os.environ.get("VERIF_DEV_OUT", "/tmp/verif-dev-out")
SCRATCH_ROOT = os.environ.get("VERIF_SCRATCH", "/var/tmp/vrp-verif")
MEM_CAP_GB = int(os.environ.get("VERIF_MEM_GB", "10"))     # resident-memory cap per verifier process group (a harness may raise it: "mem_gb")
JOBS = int(os.environ.get("VERIF_JOBS", "5"))            # verifier processes running at the same time, across all units of a check
_slots = threading.BoundedSemaphore(JOBS)
PLAYBACK_MEM_GB = int(os.environ.get("VERIF_PLAYBACK_MEM_GB", "24"))
KANI_FLAGS = ["-Z", "function-contracts", "-Z", "stubbing"]
# concrete playback switches CBMC's formula slicing off: the same harness needs 30x the memory (U06a: 1.2 GB / 53 s without,
# > 40 GB with). It is therefore requested only in a SECOND run, after a first run has completed with a failed check.
PLAYBACK_FLAGS = ["-Z", "concrete-playback", "--concrete-playback=print"]

_print_lock = threading.Lock()


def log(*a):
    with _print_lock:
        print(*a, file=sys.stderr, flush=True)


# ------------------------------------------------------------------ units

def load_units():
    units = {}
    root = os.path.join(VERIF, "units")
    for d in sorted(os.listdir(root)):
        p = os.path.join(root, d, "unit.json")
        if os.path.isfile(p):
            u = json.load(open(p))
            u["dir"] = os.path.join(root, d)
            units[u["id"]] = u
    return units


def load_known():
    known, fixed = [], []
    p = os.path.join(VERIF, "known_findings.txt")
    if os.path.isfile(p):
        for line in open(p):
            line = line.strip()
            if line.startswith("known:"):
                m = re.match(r"known:\s+property=(\S+)\s+unit=(\S+)\s+obligation=(\S+)\s+(.*)$", line)
                if m:
                    known.append({"property": m.group(1), "unit": m.group(2), "obligation": m.group(3), "text": m.group(4)})
            elif line.startswith("fixed:"):
                fixed.append(line)
    return known, fixed


# ------------------------------------------------------------------ subprocess helper

def _group_rss_gb(pgid):
    """resident memory of every process in process group pgid (GB)"""
    total = 0
    for d in os.listdir("/proc"):
        if not d.isdigit():
            continue
        try:
            st = open(f"/proc/{d}/stat").read()
            rest = st[st.rindex(")") + 2:].split()
            if int(rest[2]) != pgid:      # field 5 of stat = pgrp
                continue
            total += int(rest[21]) * 4096  # field 24 = rss pages
        except Exception:
            continue
    return total / (1 << 30)


def run_cmd(cmd, cwd, timeout, env=None, mem_cap=True, mem_gb=None):
    """run a command in its own process group under a wall-clock limit and a *resident-memory* cap
    (RLIMIT_AS is useless here: CBMC reserves far more address space than it touches)"""
    e = dict(os.environ)
    e["CARGO_NET_OFFLINE"] = "true"
    e.pop("RUSTFLAGS", None)
    if env:
        e.update(env)
    cap = mem_gb or MEM_CAP_GB
    t0 = time.time()
    p = subprocess.Popen(cmd, cwd=cwd, stdout=subprocess.PIPE, stderr=subprocess.STDOUT, env=e,
                         preexec_fn=os.setsid, text=True, errors="replace")
    state = {"killed": None, "peak": 0.0}

    def watch():
        while p.poll() is None:
            if time.time() - t0 > timeout:
                state["killed"] = "timeout"
            elif mem_cap:
                rss = _group_rss_gb(p.pid)
                state["peak"] = max(state["peak"], rss)
                if rss > cap:
                    state["killed"] = "memory"
            if state["killed"]:
                try:
                    os.killpg(p.pid, signal.SIGKILL)
                except ProcessLookupError:
                    pass
                return
            time.sleep(1.5)

    th = threading.Thread(target=watch, daemon=True)
    th.start()
    out, _ = p.communicate()
    th.join(timeout=5)
    if state["killed"] == "memory":
        out += f"\n[vf] killed: resident memory above the cap of {cap} GB (CBMC appears to have run out of memory)\n"
    return p.returncode, out, time.time() - t0, state["killed"] == "timeout"


# ------------------------------------------------------------------ assumption scan

_SCAN = [
    (re.compile(r"\bassume\s*\("), "assume"),
    (re.compile(r"\badmit\s*\("), "admit"),
    (re.compile(r"external_body"), "external_body"),
    (re.compile(r"assume_specification"), "assume_specification"),
    (re.compile(r"\baxiom\s+fn\b"), "axiom"),
    (re.compile(r"kani::assume"), "kani::assume"),
    (re.compile(r"kani::stub\b|kani::stub\("), "kani::stub"),
    (re.compile(r"#\[verifier::external"), "verifier::external"),
    (re.compile(r"\buninterp\s+spec\s+fn\b"), "uninterp spec fn"),
]


def scan_assumptions(path, label):
    counts = {}
    first = {}
    for ln, line in enumerate(open(path, errors="replace"), 1):
        s = line.strip()
        if s.startswith("//"):
            continue
        for rx, name in _SCAN:
            if rx.search(line):
                if name == "assume" and "kani::assume" in line:
                    continue
                counts[name] = counts.get(name, 0) + 1
                first.setdefault(name, ln)
    return [f"{label}: {n} x{c} (first at line {first[n]})" for n, c in sorted(counts.items())]


# ------------------------------------------------------------------ preparation

def expand_tree(src_dir, dst_dir, repo, infos, linemaps):
    """copy a unit crate directory expanding //@extract templates in *.rs files"""
    cache = {}
    for root, dirs, files in os.walk(src_dir):
        rel = os.path.relpath(root, src_dir)
        os.makedirs(os.path.join(dst_dir, rel), exist_ok=True)
        for f in files:
            sp, dp = os.path.join(root, f), os.path.join(dst_dir, rel, f)
            if f.endswith(".rs"):
                text, inf, lm = extract.expand_template(open(sp).read(), repo, cache)
                text = text.replace("@VERIF_ENV@", os.path.join(VERIF, "env"))
                open(dp, "w").write(text)
                infos.extend(inf)
                linemaps[dp] = lm
            else:
                shutil.copy(sp, dp)


# ------------------------------------------------------------------ Verus

_VERUS_FAIL_KINDS = (
    "postcondition not satisfied", "precondition not satisfied", "assertion failed", "invariant not satisfied",
    "possible arithmetic", "possible division by zero", "decreases not satisfied", "possible bit shift",
    "unreachable", "recommendation not met", "failed this", "could not prove termination", "possible truncation",
    "index out of bounds", "assertion failure", "loop invariant", "might not", "type invariant",
)


def parse_verus_errors(out):
    """split rustc-style diagnostics into error records"""
    errs = []
    cur = None
    for line in out.split("\n"):
        m = re.match(r"^(error|warning)(\[[A-Z0-9]+\])?: (.*)$", line)
        if m:
            if cur:
                errs.append(cur)
            cur = {"level": m.group(1), "msg": m.group(3), "line": None, "text": [line]} if m.group(1) == "error" else None
            continue
        if cur is not None:
            if re.match(r"^(note|help): ", line) and not line.startswith(" "):
                pass
            cur["text"].append(line)
            mm = re.match(r"^\s+--> (.*?):(\d+):(\d+)", line)
            if mm and cur["line"] is None:
                cur["line"] = int(mm.group(2))
    if cur:
        errs.append(cur)
    return [e for e in errs if not e["msg"].startswith("aborting due to")]


def fn_at_line(gen_text_lines, ln):
    """name of the fn enclosing generated line ln (scan upwards for `fn name`)"""
    for k in range(min(ln, len(gen_text_lines)) - 1, -1, -1):
        m = re.search(r"\bfn\s+([A-Za-z_][A-Za-z0-9_]*)", gen_text_lines[k])
        if m and not gen_text_lines[k].strip().startswith("//"):
            return m.group(1)
    return "?"


def run_verus_unit(u, tier, scratch):
    res = base_result(u)
    gen_dir = os.path.join(scratch, u["id"])
    os.makedirs(gen_dir, exist_ok=True)
    tpl = os.path.join(u["dir"], u.get("template", "unit.rs"))
    try:
        text, infos, lm = extract.expand_template(open(tpl).read(), REPO)
    except extract.LostAnchor as e:
        return undecided(res, "lost anchor: " + str(e))
    res["functions"] = infos
    gen = os.path.join(gen_dir, u["id"].lower() + ".rs")
    open(gen, "w").write(text)
    res["generated"] = gen
    res["trusted_scan"] = scan_assumptions(gen, u["id"])
    cmd = ["verus", gen, "--output-json", "--time-expanded", "--triggers-mode", "silent"] + u.get("verus_flags", [])
    res["checker_cmd"] = " ".join(["verus", "<generated>/" + os.path.basename(gen)] + cmd[2:])
    rc, out, wall, to = run_cmd(cmd, gen_dir, u.get("timeout_s", 300), mem_cap=False)
    res["wall_s"] = round(wall, 2)
    if to:
        return undecided(res, "verus timeout")
    # split JSON from diagnostics
    j = None
    k = out.find('{\n  "')
    for m in re.finditer(r"^\{\s*$", out, re.M):
        try:
            j = json.loads(out[m.start():])
            diag = out[:m.start()]
            break
        except Exception:
            continue
    if j is None:
        res["verifier_output"] = out[-6000:]
        return undecided(res, "verus produced no JSON (front-end failure)")
    vr = j.get("verification-results", {})
    errs = parse_verus_errors(diag)
    lines = text.split("\n")
    vac = set(u.get("vacuity", []))
    fb = []
    for mod in j.get("times-ms", {}).get("smt", {}).get("smt-run-module-times", []):
        fb.extend(mod.get("function-breakdown", []))
    # front-end errors: no verification happened
    if vr.get("encountered-vir-error") or ("verified" not in vr) or (not fb and errs):
        res["verifier_output"] = diag[-6000:]
        return undecided(res, "verus front-end / VIR error: " + "; ".join(e["msg"] for e in errs[:3]))
    fnames = {}
    for f in fb:
        short = f["function"].split("::", 1)[1] if "::" in f["function"] else f["function"]
        fnames[short] = f
    hard = []
    resource_limited = []
    for e in errs:
        fn = fn_at_line(lines, e["line"]) if e["line"] else "?"
        e["fn"] = fn
        if fn in vac:
            continue
        low = e["msg"].lower()
        if "rlimit" in low or "resource limit" in low or "timed out" in low or "timeout" in low:
            resource_limited.append(e)
        elif any(k in low for k in _VERUS_FAIL_KINDS):
            hard.append(e)
        else:
            res["verifier_output"] = diag[-6000:]
            return undecided(res, f"verus error that is not a proof failure: {e['msg']}")
    # vacuity guards must fail
    for v in vac:
        hit = [f for s, f in fnames.items() if s.split("::")[-1] == v]
        if not hit:
            return undecided(res, f"vacuity guard `{v}` not found in verifier output")
        if hit[0].get("success"):
            return undecided(res, f"vacuity guard `{v}` verified: the unit's preconditions are contradictory")
    for s, f in sorted(fnames.items()):
        if s.split("::")[-1] in vac:
            continue
        res["obligations"].append({
            "name": f"{u['id']}/{s}", "backend": "verus/z3", "complete": True,
            "status": "discharged" if f.get("success") else "failed",
            "time_s": round(f.get("time-micros", 0) / 1e6, 3), "rlimit": f.get("rlimit"),
        })
    if not res["obligations"]:
        return undecided(res, "verus generated zero obligations")
    expected = u.get("expected_obligations")
    n_ok = sum(1 for o in res["obligations"] if o["status"] == "discharged")
    if resource_limited and not hard:
        res["verifier_output"] = diag[-6000:]
        return undecided(res, "verus resource limit: " + resource_limited[0]["msg"])
    if hard:
        res["status"] = "violation"
        by_fn = {}
        for e in hard:
            clause = ""
            for t in e["text"]:
                if "|" in t and re.match(r"^\s*\d+\s*\|", t):
                    clause = t.split("|", 1)[1].strip(); break
            e["clause"] = clause
            by_fn.setdefault(e["fn"], []).append(e)
        for fn, es in by_fn.items():
            res["failed"].append({
                "obligation": f"{u['id']}/{fn}", "kind": es[0]["msg"], "clause": " ;; ".join(f"{e['msg']}: {e['clause']}" for e in es),
                "failed_clauses": [{"kind": e["msg"], "clause": e["clause"], "generated_line": e["line"]} for e in es],
                "verifier_output": "\n".join("\n".join(e["text"]) for e in es)[:6000],
                "counterexample": None,
            })
        return res
    failed_fns = [o for o in res["obligations"] if o["status"] != "discharged"]
    if failed_fns:
        res["verifier_output"] = diag[-6000:]
        return undecided(res, "verus reports failed functions without a classified error")
    if expected is not None and n_ok != expected:
        return undecided(res, f"obligation count changed: {n_ok} discharged, {expected} expected (unit.json expected_obligations)")
    res["status"] = "pass"
    return res


# ------------------------------------------------------------------ Kani

def parse_kani(out):
    r = {"checks": [], "failed": [], "covers": [], "verdict": None, "playback": [], "time_s": None, "stubs": []}
    for m in re.finditer(r"Check (\d+): (.+)\n\s+- Status: (\w+)\n\s+- Description: \"(.*?)\"\n\s+- Location: (.*)", out):
        c = {"id": m.group(2), "status": m.group(3), "desc": m.group(4), "loc": m.group(5).strip()}
        if ".cover." in c["id"] or c["desc"].startswith("cover condition"):
            r["covers"].append(c)
        else:
            r["checks"].append(c)
            if c["status"] not in ("SUCCESS", "UNREACHABLE"):
                r["failed"].append(c)
    m = re.search(r"VERIFICATION:- (\w+)", out)
    if m:
        r["verdict"] = m.group(1)
    m = re.search(r"Verification Time: ([0-9.]+)s", out)
    if m:
        r["time_s"] = float(m.group(1))
    for m in re.finditer(r"Concrete playback unit test for `(.*?)`:\n```\n(.*?)```", out, re.S):
        r["playback"].append(m.group(2))
    r["stubs"] = re.findall(r"- Stub: (.*)", out)
    return r


def playback_values(test_src):
    vals = []
    for m in re.finditer(r"//\s*(.*)\n\s*vec!\[([0-9, ]*)\]", test_src):
        vals.append({"value": m.group(1).strip(), "bytes": [int(x) for x in m.group(2).split(",") if x.strip()]})
    return vals


def prepare_kani_unit(u, scratch):
    """returns (workdir for cargo kani, extra cargo args, infos, path of harness source (for playback insertion))"""
    infos, linemaps = [], {}
    gen_dir = os.path.join(scratch, u["id"])
    if u["mode"] == "KX":
        expand_tree(os.path.join(u["dir"], u.get("crate", "kx")), gen_dir, REPO, infos, linemaps)
        return gen_dir, [], infos, os.path.join(gen_dir, "src", "lib.rs"), [os.path.join(gen_dir, "src")]
    # KO: overlay of the whole working tree
    import overlay
    ov = overlay.make_overlay(REPO, gen_dir, u)
    infos = ov["infos"]
    return gen_dir, ["-p", u["package"]], infos, ov["harness_path"], ov["scan_paths"]


def run_kani_harness(u, h, workdir, cargo_args, timeout, playback=False):
    cmd = ["cargo", "kani"] + cargo_args + KANI_FLAGS + (PLAYBACK_FLAGS if playback else []) + u.get("kani_flags", []) + h.get("kani_flags", []) + ["--harness", h["name"], "--exact"]
    with _slots:
        rc, out, wall, to = run_cmd(cmd, workdir, timeout, mem_gb=(PLAYBACK_MEM_GB if playback else h.get("mem_gb")))
    return cmd, rc, out, wall, to


def native_playback(u, h, workdir, cargo_args, harness_path, test_src, expect_msgs=None):
    """insert the generated unit test next to the harness and run it natively (`cargo kani playback`)."""
    short = h["name"].split("::")[-1]
    m = re.search(r"fn (kani_concrete_playback_\w+)", test_src)
    if not m:
        return {"ran": False, "why": "no test fn in playback output"}
    tname = m.group(1)
    src = open(harness_path).read()
    backup = src
    try:
        s = extract.Source(harness_path, src)
        # locate harness fn (anywhere in the file)
        target = None

        def walk(items):
            nonlocal target
            for it in items:
                if it.kw == "fn" and it.name == short:
                    target = it
                if it.children:
                    walk(it.children)
        walk(s.items)
        if target is not None:
            pos = s.toks[target.last].e
        elif u["mode"] == "KO":
            pos = len(src)                      # macro-generated harness: the harness file is the module, append at its end
        else:
            pos = src.rstrip().rfind("}")       # macro-generated harness inside `mod h { … }` which closes the file
        new = src[:pos] + "\n" + test_src + "\n" + src[pos:]
        open(harness_path, "w").write(new)
        cmd = ["cargo", "kani", "playback"] + cargo_args + ["-Z", "concrete-playback"] + u.get("playback_flags", []) + ["--", tname]
        rc, out, wall, to = run_cmd(cmd, workdir, 900, mem_cap=False)
        ran = re.search(r"test result: (\w+)\. (\d+) passed; (\d+) failed", out)
        failed = bool(ran) and int(ran.group(3)) > 0
        # "reproduced" = the native run panics with the message of one of the checks that failed in the verifier (a panic for
        # another reason - e.g. the trace of a check that fails early does not carry enough values for the whole harness -
        # is not a reproduction)
        msgs = [m.strip('"') for m in (expect_msgs or [])]
        same = any(m and m in out for m in msgs) if msgs else failed
        return {"ran": bool(ran), "reproduced": failed and same, "panicked": failed, "test": tname, "cmd": " ".join(cmd),
                "output_tail": out[-2500:], "wall_s": round(wall, 1)}
    finally:
        open(harness_path, "w").write(backup)


def run_kani_unit(u, tier, scratch, pid, known):
    res = base_result(u)
    try:
        workdir, cargo_args, infos, harness_path, scan_paths = prepare_kani_unit(u, scratch)
    except extract.LostAnchor as e:
        return undecided(res, "lost anchor: " + str(e))
    res["functions"] = infos
    res["generated"] = workdir
    for sp in scan_paths:
        if os.path.isdir(sp):
            for f in sorted(os.listdir(sp)):
                if f.endswith(".rs"):
                    res["trusted_scan"] += scan_assumptions(os.path.join(sp, f), f"{u['id']}/{f}")
        elif os.path.isfile(sp):
            res["trusted_scan"] += scan_assumptions(sp, f"{u['id']}/{os.path.basename(sp)}")
    hs = [h for h in u["harnesses"] if tier in h.get("tiers", ["quick", "thorough"]) and (pid is None or pid in h.get("props", u["properties"]))]
    if os.environ.get("VERIF_HARNESS"):   # dev aid: restrict to harnesses whose name contains one of the comma-separated substrings
        pats = os.environ["VERIF_HARNESS"].split(",")
        hs = [h for h in u["harnesses"] if any(p in h["name"] for p in pats)]
    if not hs:
        res["status"] = "pass"
        res["note"] = "no harness of this unit in this tier"
        return res
    # build once
    cmd = ["cargo", "kani"] + cargo_args + ["-Z", "function-contracts", "-Z", "stubbing"] + u.get("kani_flags", []) + ["--only-codegen"]
    rc, out, wall, to = run_cmd(cmd, workdir, u.get("build_timeout_s", 900), mem_cap=False)
    res["build_s"] = round(wall, 1)
    if rc != 0 or to:
        res["verifier_output"] = out[-6000:]
        errs = [l for l in out.split("\n") if l.startswith("error")][:3]
        return undecided(res, ("kani build failed (front-end error in generated crate): " + " | ".join(errs)) if not to else "kani build timeout")
    res["checker_cmd"] = "cargo kani " + " ".join(cargo_args + KANI_FLAGS + u.get("kani_flags", [])) + " --harness <h> --exact"

    def one(h):
        return h, run_kani_harness(u, h, workdir, cargo_args, h.get("timeout_s", u.get("timeout_s", 600)))

    with cf.ThreadPoolExecutor(max_workers=max(1, min(len(hs), u.get("parallel", JOBS)))) as ex:
        outs = list(ex.map(one, hs))
    any_undecided = None
    for h, (cmd, rc, out, wall, to) in outs:
        k = parse_kani(out)
        complete = bool(h.get("complete"))
        ob = {"name": f"{u['id']}/{h['name'].split('::')[-1]}", "backend": "kani/cbmc", "complete": complete,
              "bound": h.get("bound", ""), "domain": h.get("domain", ""), "time_s": round(wall, 1),
              "cbmc_checks": len(k["checks"]), "covers": len(k["covers"]), "stubs": k["stubs"]}
        is_known = [kf for kf in known if kf["unit"] == u["id"] and kf["obligation"] == h["name"].split("::")[-1]]
        if to:
            ob["status"] = "timeout"
            any_undecided = any_undecided or f"harness {h['name']} timed out after {int(wall)} s"
        elif k["verdict"] is None or "CBMC failed" in out or "run out of memory" in out or "CBMC timed out" in out or "std::bad_alloc" in out:
            # the back end died (memory cap, crash): whatever statuses were printed are not trustworthy
            ob["status"] = "error"
            res["verifier_output"] = out[-6000:]
            any_undecided = any_undecided or f"harness {h['name']}: back end failed or ran out of memory (rc={rc}, cap {h.get('mem_gb') or MEM_CAP_GB} GB)"
        else:
            unwind = [c for c in k["failed"] if "unwinding assertion" in c["desc"]]
            unsupported = [c for c in k["failed"] if "is not currently supported by Kani" in c["desc"] or c["status"] == "UNDETERMINED"]
            # CBMC's default --nan-check flags every float operation that may produce a NaN inside the code under test. A NaN
            # is not a panic and not by itself a breach of a property: where a property demands finite values the harness
            # asserts that explicitly. These checks are therefore not obligations (listed as ignored in the evidence).
            nan_checks = [c for c in k["failed"] if ".NaN." in c["id"] or c["desc"].startswith("NaN on ")]
            ob["ignored_nan_checks"] = len(nan_checks)
            real = [c for c in k["failed"] if c not in unwind and c not in unsupported and c not in nan_checks]
            bad_covers = [c for c in k["covers"] if c["status"] != "SATISFIED"]
            if h.get("expect") == "fail":
                # negative harness: a reachability / sensitivity guard that MUST fail
                ob["guard"] = True
                if real:
                    ob["status"] = "discharged"
                    ob["note"] = "negative guard failed as required"
                else:
                    ob["status"] = "error"
                    any_undecided = any_undecided or f"negative guard {h['name']} did not fail: harness domain is vacuous"
            elif real:
                ob["status"] = "failed"
                # second run, only now, to obtain a concrete counterexample (see PLAYBACK_FLAGS)
                if is_known:
                    play = []      # a recorded finding: no need to search for its input again
                else:
                    _, rc2, out2, wall2, to2 = run_kani_harness(u, h, workdir, cargo_args, h.get("playback_timeout_s", u.get("playback_timeout_s", min(1800, 3 * h.get("timeout_s", u.get("timeout_s", 600))))), playback=True)
                    k2 = parse_kani(out2)
                    ob["playback_run_s"] = round(wall2, 1)
                    play = k2["playback"] if (not to2 and k2["verdict"] is not None and "CBMC failed" not in out2 and "run out of memory" not in out2) else []
                # choose the playback test that belongs to an assertion (not a cover)
                pb = None
                for t in play:
                    if "Check for `cover`" not in t:
                        pb = t; break
                fail = {
                    "obligation": ob["name"], "harness": h["name"],
                    "failed_checks": [{"id": c["id"], "desc": c["desc"], "loc": c["loc"]} for c in real[:12]],
                    "verifier_output": "\n".join(f"{c['id']}: {c['desc']} @ {c['loc']}" for c in real[:12]),
                    "counterexample": playback_values(pb) if pb else None,
                    "playback_test": pb,
                    "known": bool(is_known),
                }
                if pb:
                    try:
                        fail["native_replay"] = native_playback(u, h, workdir, cargo_args, harness_path, pb, [c["desc"] for c in real])
                    except Exception as e:  # pragma: no cover
                        fail["native_replay"] = {"ran": False, "why": repr(e)}
                res["failed"].append(fail)
            elif unwind or unsupported:
                ob["status"] = "error"
                any_undecided = any_undecided or f"harness {h['name']}: " + ("unwinding bound too small" if unwind else "unsupported construct reached")
            elif bad_covers and not h.get("allow_unsat_covers"):
                ob["status"] = "error"
                any_undecided = any_undecided or f"harness {h['name']}: cover not satisfied ({bad_covers[0]['desc']}) – vacuous precondition"
            elif k["verdict"] == "SUCCESSFUL" or (nan_checks and len(nan_checks) == len(k["failed"])):
                ob["status"] = "discharged"
            else:
                ob["status"] = "error"
                res["verifier_output"] = out[-6000:]
                any_undecided = any_undecided or f"harness {h['name']}: verdict {k['verdict']} without classified failure"
            ob["own_assertions"] = sorted({c["desc"] for c in k["checks"] if h["name"] in c["loc"] or h["name"].split("::")[-1] in c["loc"]})[:20]
            ob["cover_witnesses"] = [c["desc"] for c in k["covers"] if c["status"] == "SATISFIED"][:6]
        res["obligations"].append(ob)
    res["wall_s"] = round(max([o["time_s"] for o in res["obligations"]] + [0]) + res.get("build_s", 0), 1)
    if [f for f in res["failed"] if not f.get("known")]:
        res["status"] = "violation"
    elif any_undecided:
        return undecided(res, any_undecided)
    else:
        res["status"] = "pass"
    return res


# ------------------------------------------------------------------ results

def base_result(u):
    return {"unit": u["id"], "mode": u["mode"], "title": u.get("title", ""), "status": None, "functions": [],
            "obligations": [], "failed": [], "trusted_scan": [], "wall_s": 0.0, "diagnostic": None,
            "trusted": u.get("trusted", []), "assumptions": u.get("assumptions", []), "not_covered": u.get("not_covered", [])}


def undecided(res, why):
    res["status"] = "undecided"
    res["diagnostic"] = why
    return res


def run_unit(u, tier, scratch, pid, known):
    t0 = time.time()
    try:
        if u["mode"] == "V":
            r = run_verus_unit(u, tier, scratch)
        else:
            r = run_kani_unit(u, tier, scratch, pid, known)
    except extract.LostAnchor as e:
        r = undecided(base_result(u), "lost anchor: " + str(e))
    r["total_wall_s"] = round(time.time() - t0, 1)
    log(f"[{u['id']}] {r['status']} ({r['total_wall_s']} s)" + (f" – {r['diagnostic']}" if r.get("diagnostic") else ""))
    return r


def repo_state():
    def g(*a):
        try:
            return subprocess.run(["git", "-C", REPO] + list(a), capture_output=True, text=True).stdout.strip()
        except Exception:
            return ""
    diff = g("diff", "HEAD")
    return {"head": g("rev-parse", "--short", "HEAD"), "dirty": bool(diff), "diff_sha": hashlib.sha256(diff.encode()).hexdigest()[:12] if diff else None}


def check_property(pid, tier, only_units=None, keep=False):
    t0 = time.time()
    units = load_units()
    known, fixed = load_known()
    props = {json.loads(l)["id"]: json.loads(l) for l in open(os.path.join(VERIF, "properties.jsonl"))}
    mine = [u for u in units.values() if pid in u["properties"] and (not only_units or u["id"] in only_units)]
    scratch = os.path.join(SCRATCH_ROOT, f"{pid}-{os.getpid()}")
    shutil.rmtree(scratch, ignore_errors=True)
    os.makedirs(scratch, exist_ok=True)
    results = []
    try:
        if not mine:
            print(f"no unit serves {pid}")
            return 2
        with cf.ThreadPoolExecutor(max_workers=len(mine)) as ex:
            futs = [ex.submit(run_unit, u, tier, scratch, pid, known) for u in mine]
            results = [f.result() for f in futs]
        code = report(pid, tier, results, known, props.get(pid, {}), time.time() - t0)
        return code
    finally:
        if not keep and not os.environ.get("VERIF_KEEP"):
            shutil.rmtree(scratch, ignore_errors=True)


def report(pid, tier, results, known, prop, wall):
    manifest_level = manifest_levels().get(pid, "proof")
    seed = int(os.environ.get("VERIF_SEED", "0") or 0)
    viol = []
    known_hits = []
    undec = [r for r in results if r["status"] == "undecided"]
    rep_dir = os.path.join(OUT_ROOT, "replays", pid)
    state = repo_state()
    for r in results:
        for f in r["failed"]:
            if f.get("known"):
                kf = [k for k in known if k["unit"] == r["unit"] and f["obligation"].endswith("/" + k["obligation"])][0]
                known_hits.append((r, f, kf))
                continue
            os.makedirs(rep_dir, exist_ok=True)
            name = re.sub(r"[^A-Za-z0-9_.-]", "_", f["obligation"]) + ".json"
            path = os.path.join(rep_dir, name)
            nr = f.get("native_replay") or {}
            doc = {
                "property": pid, "unit": r["unit"], "mode": r["mode"], "tier": tier, "obligation": f["obligation"],
                "harness": f.get("harness"), "kind": f.get("kind"), "clause": f.get("clause"),
                "failed_checks": f.get("failed_checks"), "counterexample": f.get("counterexample"),
                "playback_test": f.get("playback_test"), "native_replay": nr or None,
                "reproduced_on_real_code": bool(nr.get("reproduced")),
                "verifier_output": f.get("verifier_output"), "functions_under_contract": r["functions"],
                "repo": state,
                "how_to_replay": f"./check replay {path}",
            }
            json.dump(doc, open(path, "w"), indent=1)
            # (a constant-shaped harness has an empty value list: its playback test is the failing run itself)
            has_input = (f.get("playback_test") is not None) and bool(nr.get("reproduced"))
            viol.append((path, has_input, r, f))
    # a Kani counterexample that does not reproduce natively is spurious: downgrade to undecided
    real_viol = []
    for path, has_input, r, f in viol:
        nr = f.get("native_replay") or {}
        if r["mode"] != "V" and f.get("playback_test") and nr.get("ran") and not nr.get("reproduced"):
            # the first (sliced) run completed with a failed check and the second run produced a concrete input, but that
            # input does not make the same harness fail natively: solver imprecision or an environment that is too weak.
            # Undecided, never an alarm.
            undec.append({"unit": r["unit"], "diagnostic": f"spurious counterexample for {f['obligation']}: does not reproduce natively; see {path}"})
            continue
        # a Kani failure without a concrete input (the playback run exceeded its memory/time budget) is still reported:
        # the first run completed normally (back-end failures are filtered out earlier) and named the failed check
        real_viol.append((path, has_input, r, f))
    write_evidence(pid, tier, seed, manifest_level, results, known_hits, real_viol, undec, wall)
    for r, f, kf in known_hits:
        print(f"KNOWN-FINDING: property={pid} {kf['unit']}/{kf['obligation']} {kf['text']}")
    for path, has_input, r, f in real_viol:
        print(f"VIOLATION property={pid} replay={path}" + ("" if has_input else " no-failing-input-found"))
        desc = f.get("kind") or (f.get("failed_checks") or [{}])[0].get("desc", "")
        print(f"  failed obligation: {f['obligation']} – {desc} {f.get('clause') or ''}")
    for r in undec:
        print(f"UNDECIDED property={pid} unit={r['unit']}: {r['diagnostic']}")
    n_ob = sum(len(r["obligations"]) for r in results)
    n_ok = sum(1 for r in results for o in r["obligations"] if o["status"] == "discharged")
    print(f"{pid} [{tier}] units={len(results)} obligations={n_ob} discharged={n_ok} violations={len(real_viol)} known={len(known_hits)} undecided={len(undec)} wall={wall:.0f}s")
    if real_viol:
        return 1
    if undec:
        return 2
    return 0


def manifest_levels():
    try:
        m = json.load(open(os.path.join(VERIF, "MANIFEST.json")))
        return {c["property_id"]: c["level_claimed"]["category"] for c in m["checks"]}
    except Exception:
        return {}


def write_evidence(pid, tier, seed, level, results, known_hits, viol, undec, wall):
    complete = [o for r in results for o in r["obligations"] if o.get("complete") and not o.get("guard")]
    bounded = [o for r in results for o in r["obligations"] if not o.get("complete") and not o.get("guard")]
    guards = [o for r in results for o in r["obligations"] if o.get("guard")]
    known_names = {f["obligation"] for _, f, _ in known_hits}
    n_obl = 0
    n_dis = 0
    for o in complete:
        if o["name"] in known_names:
            continue
        k = o.get("cbmc_checks") or 1
        n_obl += k
        if o["status"] == "discharged":
            n_dis += k
    cbmc_total = sum(o.get("cbmc_checks", 0) for o in complete + bounded)
    nontrivial = sum(1 for o in complete + bounded if o["status"] in ("discharged", "failed") and (o["backend"].startswith("verus") or o.get("covers", 0) > 0 or o.get("cbmc_checks", 0) > 0))
    functions = []
    for r in results:
        for f in r["functions"]:
            functions.append({"unit": r["unit"], "mode": r["mode"], "file": f["file"], "item": f["path"], "lines": f["lines"],
                              "sha256": f["sha256"], "deviations_from_verbatim": f.get("deviations", []), "spliced": f.get("spliced")})
    samples = []
    for r in results:
        for o in r["obligations"][:40]:
            s = {"obligation": o["name"], "backend": o["backend"], "status": o["status"], "time_s": o["time_s"], "complete": o.get("complete")}
            if o.get("own_assertions"):
                s["postcondition_assertions"] = o["own_assertions"][:8]
            if o.get("cover_witnesses"):
                s["covers_satisfied"] = o["cover_witnesses"]
            if o.get("bound"):
                s["bound"] = o["bound"]
            if o.get("domain"):
                s["domain"] = o["domain"]
            samples.append(s)
    trusted = []
    assumptions = []
    not_cov = []
    for r in results:
        trusted += [f"{r['unit']}: {t}" for t in r.get("trusted", [])]
        trusted += r.get("trusted_scan", [])
        assumptions += [f"{r['unit']}: {a}" for a in r.get("assumptions", [])]
        not_cov += [f"{r['unit']}: {a}" for a in r.get("not_covered", [])]
    trusted += ["Verus 0.2026.09.13 + Z3 (verus units)", "Kani 0.68.0 + CBMC 6.11 + CaDiCaL (kani units)",
                "vf/extract.py: mechanical item extractor and specification splicer (drops doc comments/attributes of extracted items, all other items of the file; adds only specification syntax and the stated substitutions)"]
    cov = {
        "obligations": n_obl, "discharged": n_dis,
        "checker_cmd": "; ".join(sorted({r.get("checker_cmd", "") for r in results if r.get("checker_cmd")})),
        "trusted_base": trusted,
        "evaluations": max(1, cbmc_total + sum(1 for o in complete + bounded if o["backend"].startswith("verus"))),
        "distinct_nontrivial": nontrivial,
        "rule": "evaluations = CBMC checks + Verus verification units run; distinct_nontrivial = obligations (Verus fns/lemmas, Kani harnesses) that ran to a verdict (discharged or failed) with a non-empty set of checks; for Kani harnesses every kani::cover! in the harness had to be SATISFIED",
        "samples": samples,
        "functions_under_contract": functions,
        "units": [{"unit": r["unit"], "mode": r["mode"], "title": r.get("title"), "status": r["status"], "wall_s": r.get("total_wall_s"),
                   "build_s": r.get("build_s"), "diagnostic": r.get("diagnostic")} for r in results],
        "bounded": [{"obligation": o["name"], "bound": o.get("bound", ""), "status": o["status"], "time_s": o["time_s"],
                     "cbmc_checks": o.get("cbmc_checks")} for o in bounded],
        "complete_obligations": [{"obligation": o["name"], "backend": o["backend"], "status": o["status"], "time_s": o["time_s"],
                                  "checks": o.get("cbmc_checks") or 1, "domain": o.get("domain", "")} for o in complete],
        "vacuity_guards": [{"guard": o["name"], "status": "failed as required" if o["status"] == "discharged" else o["status"], "time_s": o["time_s"]} for o in guards],
        "known_findings_hit": [f"{kf['unit']}/{kf['obligation']}: {kf['text']}" for _, _, kf in known_hits],
        "not_covered": not_cov,
        "undecided": [f"{r['unit']}: {r['diagnostic']}" for r in undec],
        "solver_time_s": round(sum(o["time_s"] for o in complete + bounded), 1),
        "explanation": "proof-level numbers (obligations/discharged) count only complete obligations: Verus functions/lemmas (unbounded) and Kani harnesses that are loop-free or constant-bounded over the full stated domain. Bounded Kani harnesses are listed under `bounded` and are never counted as proved.",
        "exhaustive": False,
    }
    if n_obl == 0:
        # no complete obligation ran in this tier: do not present proof-style counts at all (generic keys remain)
        cov.pop("obligations"); cov.pop("discharged")
        cov["explanation"] += " In this run no complete obligation was part of the tier: only bounded harnesses ran."
    ev = {"property_id": pid, "tier": tier, "seed": seed, "level": level, "coverage": cov,
          "assumptions": assumptions, "wall_s": round(wall, 1), "violations": len(viol)}
    os.makedirs(os.path.join(OUT_ROOT, "evidence"), exist_ok=True)
    json.dump(ev, open(os.path.join(OUT_ROOT, "evidence", pid + ".json"), "w"), indent=1)


# ------------------------------------------------------------------ replay

def replay(path):
    doc = json.load(open(path))
    units = load_units()
    u = units[doc["unit"]]
    print(f"replay of {doc['obligation']} (property {doc['property']}, unit {doc['unit']}, mode {doc['mode']})")
    if not doc.get("playback_test"):
        print("no failing input was found by the verifier for this obligation; verifier output:")
        print(doc.get("verifier_output") or "")
        print("re-running the unit on the current tree:")
        scratch = os.path.join(SCRATCH_ROOT, f"replay-{os.getpid()}")
        os.makedirs(scratch, exist_ok=True)
        try:
            r = run_unit(u, doc.get("tier", "quick"), scratch, doc["property"], [])
        finally:
            shutil.rmtree(scratch, ignore_errors=True)
        still = [f for f in r["failed"] if f["obligation"] == doc["obligation"]]
        print("obligation still fails" if still else f"obligation does not fail now (unit status {r['status']})")
        return 1 if still else 0
    scratch = os.path.join(SCRATCH_ROOT, f"replay-{os.getpid()}")
    os.makedirs(scratch, exist_ok=True)
    try:
        workdir, cargo_args, infos, harness_path, _ = prepare_kani_unit(u, scratch)
        h = [x for x in u["harnesses"] if x["name"] == doc["harness"]][0]
        nr = native_playback(u, h, workdir, cargo_args, harness_path, doc["playback_test"], [c["desc"] for c in (doc.get("failed_checks") or [])])
        print(nr.get("output_tail", ""))
        print("REPRODUCED on the current tree" if nr.get("reproduced") else "not reproduced on the current tree")
        return 1 if nr.get("reproduced") else 0
    finally:
        shutil.rmtree(scratch, ignore_errors=True)


def main(argv):
    if len(argv) >= 2 and argv[0] == "replay":
        return replay(argv[1])
    if not argv:
        print("usage: check <Cxx> [--tier quick|thorough] [--unit Uxx] | check replay <file> | check all")
        return 2
    tier = os.environ.get("VERIF_TIER", "quick") or "quick"
    only = []
    keep = False
    pid = argv[0]
    i = 1
    while i < len(argv):
        if argv[i] == "--tier":
            tier = argv[i + 1]; i += 2
        elif argv[i] == "--unit":
            only.append(argv[i + 1]); i += 2
        elif argv[i] == "--keep":
            keep = True; i += 1
        else:
            i += 1
    if only:
        global OUT_ROOT
        OUT_ROOT = os.environ.get("VERIF_DEV_OUT", "/tmp/verif-dev-out") if OUT_ROOT == VERIF else OUT_ROOT     # partial run: not the property's evidence
    if pid == "all":
        codes = {}
        for c in sorted(manifest_levels()):
            codes[c] = check_property(c, tier)
        print(codes)
        return max(codes.values()) if codes else 2
    return check_property(pid, tier, only, keep)


if __name__ == "__main__":
    sys.exit(main(sys.argv[1:]))
