#!/usr/bin/env python3
"""KO mode: scratch overlay of /repo's current working tree (tracked + modified files, no target/, no .git) with
 * one appended line per attached harness:  #[cfg(kani)] #[path = "<abs>"] mod <name>;
   (the repository wires its own unit tests the same way: #[cfg(test)] #[path = …] mod x_test;)
 * optional, stated, anchored substitutions (exact string + required match count), e.g. std hash collections ->
   env/collections.rs look-alike, rayon wrapper -> the repository's own sequential wasm32 variant.
Nothing is extracted: the verified text is the crate itself."""
import os
import shutil
import subprocess
import sys

HERE = os.path.dirname(os.path.abspath(__file__))
VERIF = os.path.dirname(HERE)
sys.path.insert(0, HERE)
import extract  # noqa: E402


def make_overlay(repo, dst, u):
    os.makedirs(dst, exist_ok=True)
    subprocess.check_call(["rsync", "-a", "--delete", "--exclude", "/target", "--exclude", ".git", "--exclude", "/docs",
                           repo.rstrip("/") + "/", dst + "/"])
    infos = []
    scan_paths = []
    harness_path = None
    udir = u["dir"]
    for att in u["attach"]:
        target = os.path.join(dst, att["file"])
        if not os.path.isfile(target):
            raise extract.LostAnchor(f"overlay: {att['file']} not found")
        hsrc = os.path.join(udir, att["harness"])
        hdst = os.path.join(dst, "verif_harness_" + u["id"] + "_" + os.path.basename(att["harness"]))
        text = open(hsrc).read().replace("@VERIF_ENV@", os.path.join(VERIF, "env"))
        open(hdst, "w").write(text)
        with open(target, "a") as f:
            vis = (att["vis"] + " ") if att.get("vis") else ""
            f.write(f"\n#[cfg(kani)]\n#[path = \"{hdst}\"]\n{vis}mod {att['mod']};\n")
        harness_path = harness_path or hdst
        scan_paths.append(hdst)
    for sub in u.get("substitutions", []):
        p = os.path.join(dst, sub["file"])
        if not os.path.isfile(p):
            raise extract.LostAnchor(f"overlay: {sub['file']} not found")
        s = open(p).read()
        c = s.count(sub["old"])
        if c != sub["count"]:
            raise extract.LostAnchor(f"overlay: substitution anchor {sub['old']!r} in {sub['file']} found {c} times, expected {sub['count']}")
        open(p, "w").write(s.replace(sub["old"], sub["new"]))
    # functions under contract: named in unit.json, located (and hashed) in the current tree
    cache = {}
    for fn in u.get("functions", []):
        path = os.path.join(dst, fn["file"])
        if path not in cache:
            if not os.path.isfile(path):
                raise extract.LostAnchor(f"overlay: {fn['file']} not found")
            cache[path] = extract.Source(path)
        it = cache[path].find(fn["item"])
        info = cache[path].item_info(it)
        info["file"] = fn["file"]
        info["path"] = fn["item"]
        info["deviations"] = ["none: verified in place in a scratch overlay of the crate"] + [f"overlay substitution in {s['file']}: {s['old']!r} -> {s['new']!r}" for s in u.get("substitutions", [])]
        infos.append(info)
    # cargo needs a lock file and offline mode
    cfgdir = os.path.join(dst, ".cargo")
    os.makedirs(cfgdir, exist_ok=True)
    with open(os.path.join(cfgdir, "config.toml"), "a") as f:
        f.write("\n[net]\noffline = true\n")
    return {"infos": infos, "harness_path": harness_path, "scan_paths": scan_paths}
