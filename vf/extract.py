#!/usr/bin/env python3
"""Mechanical extractor of Rust items (verbatim text) + specification splicer.

Nothing here interprets Rust semantics: a small tokenizer (comments, strings,
raw strings, chars/lifetimes, identifiers, numbers, punctuation) is used only
to find item boundaries, the signature/body split of a `fn`, and the anchors
(closure ordinal, loop ordinal) where specification syntax is inserted.

Item paths:  `impl Tour/fn insert_at`, `fn check_time_windows`,
             `impl Ord for InsertionCost`, `struct Tour`, `const X`, `macro NAME`.
A path component may end with `#k` to pick the k-th (1-based) match.

Errors raise `LostAnchor` – the caller turns that into exit code 2 (never a
VIOLATION).
"""
import hashlib
import re
import sys
from dataclasses import dataclass, field
from typing import List, Optional, Tuple


class LostAnchor(Exception):
    pass


# ---------------------------------------------------------------- tokenizer

@dataclass
class Tok:
    kind: str   # ws, lc (line comment), bc (block comment), str, chr, life, id, num, p
    s: int
    e: int
    text: str


_ID_START = set("abcdefghijklmnopqrstuvwxyzABCDEFGHIJKLMNOPQRSTUVWXYZ_")
_ID_CONT = _ID_START | set("0123456789")


def tokenize(src: str) -> List[Tok]:
    toks: List[Tok] = []
    i, n = 0, len(src)
    while i < n:
        c = src[i]
        if c.isspace():
            j = i + 1
            while j < n and src[j].isspace():
                j += 1
            toks.append(Tok("ws", i, j, src[i:j]))
        elif src.startswith("//", i):
            j = src.find("\n", i)
            j = n if j < 0 else j
            toks.append(Tok("lc", i, j, src[i:j]))
        elif src.startswith("/*", i):
            depth, j = 1, i + 2
            while j < n and depth:
                if src.startswith("/*", j):
                    depth += 1; j += 2
                elif src.startswith("*/", j):
                    depth -= 1; j += 2
                else:
                    j += 1
            toks.append(Tok("bc", i, j, src[i:j]))
        elif c == '"' or (c in "bc" and src.startswith('"', i + 1)):
            j = i + (1 if c == '"' else 2)
            while j < n and src[j] != '"':
                j += 2 if src[j] == "\\" else 1
            j += 1
            toks.append(Tok("str", i, j, src[i:j]))
        elif (c == "r" or (c in "bc" and src.startswith("r", i + 1))) and re.match(r'(?:b|c)?r#*"', src[i:i + 40]):
            m = re.match(r'(?:b|c)?r(#*)"', src[i:i + 40])
            hashes = m.group(1)
            endpat = '"' + hashes
            j = src.find(endpat, i + len(m.group(0)))
            if j < 0:
                raise LostAnchor("unterminated raw string")
            j += len(endpat)
            toks.append(Tok("str", i, j, src[i:j]))
        elif c == "'" or (c == "b" and src.startswith("'", i + 1)):
            k = i + (1 if c == "'" else 2)
            # char literal or lifetime
            if k < n and src[k] == "\\":
                j = src.find("'", k + 2)
                # handle '\''
                if src[k + 1] == "'":
                    j = k + 2
                j += 1
                toks.append(Tok("chr", i, j, src[i:j]))
            elif k + 1 < n and src[k + 1] == "'" :
                toks.append(Tok("chr", i, k + 2, src[i:k + 2]))
                j = k + 2
            elif k < n and src[k] in _ID_START and c == "'":
                j = k
                while j < n and src[j] in _ID_CONT:
                    j += 1
                toks.append(Tok("life", i, j, src[i:j]))
            else:
                # multi-byte char literal like 'é'
                j = src.find("'", k) + 1
                toks.append(Tok("chr", i, j, src[i:j]))
        elif c in _ID_START:
            j = i + 1
            while j < n and src[j] in _ID_CONT:
                j += 1
            toks.append(Tok("id", i, j, src[i:j]))
        elif c.isdigit():
            j = i + 1
            while j < n and (src[j] in _ID_CONT or (src[j] == "." and j + 1 < n and src[j + 1].isdigit() and not src.startswith("..", j))):
                j += 1
            # trailing `1.` float form (e.g. `0.` ) – keep the dot when not followed by ident/dot
            if j < n and src[j] == "." and not src.startswith("..", j) and not (j + 1 < n and (src[j + 1] in _ID_START)):
                j += 1
            toks.append(Tok("num", i, j, src[i:j]))
        else:
            j = i + 1
            toks.append(Tok("p", i, j, c))
        i = toks[-1].e
    return toks


OPEN = {"(": ")", "[": "]", "{": "}"}
CLOSE = {")", "]", "}"}


def _sig(toks, a, b):
    """indices of significant (non ws/comment) tokens in [a,b)"""
    return [k for k in range(a, b) if toks[k].kind not in ("ws", "lc", "bc")]


def match_close(toks, k):
    """index of the token closing the delimiter opened at index k"""
    depth = 0
    for j in range(k, len(toks)):
        t = toks[j]
        if t.kind == "p":
            if t.text in OPEN:
                depth += 1
            elif t.text in CLOSE:
                depth -= 1
                if depth == 0:
                    return j
    raise LostAnchor("unbalanced delimiter")


# ---------------------------------------------------------------- items

@dataclass
class Item:
    key: str              # e.g. "fn insert_at", "impl Tour", "struct Tour"
    kw: str
    name: str
    first: int            # first token (incl. attrs / docs)
    head: int             # first token after attrs/docs
    body_open: Optional[int]   # index of `{` of the body (None for `;` items)
    last: int             # last token (inclusive)
    children: Optional[List["Item"]] = None


_QUAL = {"pub", "unsafe", "async", "default", "extern", "const"}
_SEMI_KW = {"const", "static", "type", "use", "let"}


def _norm(toks, a, b):
    return " ".join(toks[k].text for k in _sig(toks, a, b))


def norm_text(s: str) -> str:
    t = tokenize(s)
    return _norm(t, 0, len(t))


def parse_items(toks, a, b) -> List[Item]:
    """parse items in token range [a,b) (top-level of a file, or inside braces)"""
    items = []
    k = a
    while k < b:
        t = toks[k]
        if t.kind in ("ws",):
            k += 1; continue
        first = k
        # docs + attributes
        while k < b:
            t = toks[k]
            if t.kind in ("ws", "lc", "bc"):
                k += 1
            elif t.kind == "p" and t.text == "#":
                j = k + 1
                if toks[j].kind == "p" and toks[j].text == "!":
                    j += 1
                while toks[j].kind == "ws":
                    j += 1
                if not (toks[j].kind == "p" and toks[j].text == "["):
                    break
                k = match_close(toks, j) + 1
            else:
                break
        if k >= b:
            break
        head = k
        # qualifiers
        q = k
        kw = None
        while q < b:
            tq = toks[q]
            if tq.kind in ("ws", "lc", "bc"):
                q += 1; continue
            if tq.kind == "id" and tq.text in _QUAL:
                # `const` followed by fn/unsafe/async/extern is a qualifier, otherwise the item keyword
                if tq.text == "const":
                    nxt = [z for z in _sig(toks, q + 1, min(b, q + 6))]
                    if nxt and toks[nxt[0]].kind == "id" and toks[nxt[0]].text in ("fn", "unsafe", "async", "extern"):
                        q += 1; continue
                    kw = "const"; break
                q += 1
                # pub(crate) / extern "C"
                nxt = _sig(toks, q, min(b, q + 4))
                if nxt and toks[nxt[0]].kind == "p" and toks[nxt[0]].text == "(" and tq.text == "pub":
                    q = match_close(toks, nxt[0]) + 1
                elif nxt and toks[nxt[0]].kind == "str" and tq.text == "extern":
                    q = nxt[0] + 1
                continue
            if tq.kind == "id":
                kw = tq.text
            break
        if kw is None:
            # stray token (e.g. `;`), skip it
            k = q + 1
            continue
        kwi = q
        # name
        name = ""
        after = _sig(toks, kwi + 1, min(b, kwi + 8))
        is_macro_call = bool(after) and toks[after[0]].kind == "p" and toks[after[0]].text == "!" and kw != "impl"
        if kw == "macro_rules" and is_macro_call:
            name = toks[after[1]].text if len(after) > 1 else ""
            kwk = "macro"
        elif is_macro_call:
            name = kw
            kwk = "macrocall"
        elif kw == "impl":
            kwk = "impl"
        else:
            kwk = kw
            if after and toks[after[0]].kind == "id":
                name = toks[after[0]].text
        # find end
        j = kwi + 1
        body_open = None
        last = None
        depth = 0
        while j < b:
            tj = toks[j]
            if tj.kind == "p":
                if tj.text in OPEN:
                    if tj.text == "{" and depth == 0 and kwk not in _SEMI_KW and kwk != "macrocall":
                        body_open = j
                        last = match_close(toks, j)
                        break
                    if kwk == "macrocall" and depth == 0:
                        cl = match_close(toks, j)
                        if tj.text == "{":
                            last = cl
                        else:
                            nx = _sig(toks, cl + 1, min(b, cl + 4))
                            last = nx[0] if nx and toks[nx[0]].text == ";" else cl
                        break
                    j = match_close(toks, j) + 1
                    continue
                if tj.text == ";" and depth == 0:
                    last = j
                    break
            j += 1
        if last is None:
            raise LostAnchor("item without end near offset %d" % toks[head].s)
        if kwk == "impl":
            hdr_end = body_open if body_open is not None else last
            # drop where-clause from the key
            hdr = _sig(toks, kwi, hdr_end)
            cut = len(hdr)
            for z, idx in enumerate(hdr):
                if toks[idx].kind == "id" and toks[idx].text == "where":
                    cut = z; break
            key = " ".join(toks[idx].text for idx in hdr[:cut])
        elif kwk == "macro":
            key = "macro " + name
        elif kwk == "macrocall":
            key = "macrocall " + name
        else:
            key = (kwk + " " + name).strip()
        it = Item(key=key, kw=kwk, name=name, first=first, head=head, body_open=body_open, last=last)
        if kwk in ("impl", "mod", "trait") and body_open is not None:
            it.children = parse_items(toks, body_open + 1, last)
        items.append(it)
        k = last + 1
    return items


class Source:
    def __init__(self, path: str, text: Optional[str] = None):
        self.path = path
        self.text = open(path, encoding="utf-8").read() if text is None else text
        self.toks = tokenize(self.text)
        self.items = parse_items(self.toks, 0, len(self.toks))

    # ---- lookup
    def find(self, path: str) -> Item:
        comps = [c.strip() for c in path.split("/")]
        level = self.items
        cands = None
        for ci, comp in enumerate(comps):
            ordinal = None
            m = re.match(r"^(.*)#(\d+)$", comp)
            if m:
                comp, ordinal = m.group(1).strip(), int(m.group(2))
            want = norm_text(comp)
            found = [it for it in level if it.key == want]
            if ci < len(comps) - 1:
                # several impl blocks with the same header: search all of them
                if ordinal:
                    if len(found) < ordinal:
                        raise LostAnchor(f"{self.path}: no `{comp}` #{ordinal}")
                    found = [found[ordinal - 1]]
                if not found:
                    raise LostAnchor(f"{self.path}: item `{comp}` not found")
                level = [ch for it in found for ch in (it.children or [])]
            else:
                if ordinal:
                    if len(found) < ordinal:
                        raise LostAnchor(f"{self.path}: no `{comp}` #{ordinal}")
                    return found[ordinal - 1]
                if not found:
                    raise LostAnchor(f"{self.path}: item `{path}` not found")
                if len(found) > 1:
                    raise LostAnchor(f"{self.path}: item `{path}` is ambiguous ({len(found)} matches)")
                return found[0]
        raise LostAnchor(f"{self.path}: item `{path}` not found")

    # ---- text helpers
    def span(self, a: int, b: int) -> str:
        """text of tokens a..b inclusive"""
        return self.text[self.toks[a].s:self.toks[b].e]

    def line_of(self, k: int) -> int:
        return self.text.count("\n", 0, self.toks[k].s) + 1

    def item_text(self, it: Item) -> str:
        """verbatim text of the item without its doc comments / attributes"""
        return self.span(it.head, it.last)

    def item_text_with_attrs(self, it: Item) -> str:
        return self.span(it.first, it.last)

    def item_info(self, it: Item):
        txt = self.item_text(it)
        return {
            "file": self.path,
            "item": it.key,
            "lines": [self.line_of(it.head), self.line_of(it.last)],
            "sha256": hashlib.sha256(txt.encode()).hexdigest()[:16],
        }


# ---------------------------------------------------------------- fn splicing

def _find_closures(toks, a, b) -> List[Tuple[int, int, int, int]]:
    """closure anchors inside token range [a,b): list of (bar1, bar2, body_first, body_last) token indices.
    A `|` starts a closure when it stands where an expression may start."""
    res = []
    sig = _sig(toks, a, b)
    pos = {idx: z for z, idx in enumerate(sig)}
    z = 0
    while z < len(sig):
        idx = sig[z]
        t = toks[idx]
        if t.kind == "p" and t.text == "|":
            prev = toks[sig[z - 1]] if z > 0 else None
            starts = prev is None or (prev.kind == "p" and prev.text in "(,={;[>!&|:" ) or (prev.kind == "id" and prev.text in ("move", "return", "in", "else"))
            # `=>` arm, `= |`, `(|`, `, |`, `move |`
            if starts:
                # `||` empty params: next sig token is `|` immediately adjacent
                if z + 1 < len(sig) and toks[sig[z + 1]].kind == "p" and toks[sig[z + 1]].text == "|" and toks[sig[z + 1]].s == t.e:
                    bar2 = sig[z + 1]
                    z2 = z + 2
                else:
                    # find closing bar at delimiter depth 0
                    depth = 0
                    z2 = z + 1
                    bar2 = None
                    while z2 < len(sig):
                        tt = toks[sig[z2]]
                        if tt.kind == "p":
                            if tt.text in OPEN: depth += 1
                            elif tt.text in CLOSE: depth -= 1
                            elif tt.text == "|" and depth == 0:
                                bar2 = sig[z2]; break
                        z2 += 1
                    if bar2 is None:
                        z += 1; continue
                    z2 += 1
                if z2 >= len(sig):
                    break
                # optional `-> T` before a block body is not handled (not used in the repo's closures we annotate)
                bf = sig[z2]
                if toks[bf].kind == "p" and toks[bf].text == "{":
                    bl = match_close(toks, bf)
                else:
                    depth = 0
                    z3 = z2
                    bl = None
                    while z3 < len(sig):
                        tt = toks[sig[z3]]
                        if tt.kind == "p":
                            if tt.text in OPEN:
                                depth += 1
                            elif tt.text in CLOSE:
                                if depth == 0:
                                    break
                                depth -= 1
                            elif tt.text in ",;" and depth == 0:
                                break
                        bl = sig[z3]
                        z3 += 1
                    if bl is None:
                        z += 1; continue
                res.append((idx, bar2, bf, bl))
                # continue scanning *inside* the body as well (nested closures get later ordinals)
                z = z2
                continue
        z += 1
    return res


def _find_loops(toks, a, b) -> List[Tuple[int, int]]:
    """(keyword token idx, `{` token idx) for each `while`/`for`/`loop` in [a,b)"""
    res = []
    sig = _sig(toks, a, b)
    for z, idx in enumerate(sig):
        t = toks[idx]
        if t.kind == "id" and t.text in ("while", "for", "loop"):
            if t.text == "for":
                # exclude `for<'a>` HRTB and `impl X for Y`
                nx = toks[sig[z + 1]] if z + 1 < len(sig) else None
                if nx is not None and nx.kind == "p" and nx.text == "<":
                    continue
            depth = 0
            for z2 in range(z + 1, len(sig)):
                tt = toks[sig[z2]]
                if tt.kind == "p":
                    if tt.text == "{" and depth == 0:
                        res.append((idx, sig[z2])); break
                    if tt.text in OPEN: depth += 1
                    elif tt.text in CLOSE: depth -= 1
    return res


@dataclass
class FnSplice:
    ret: Optional[str] = None         # name for the return value (Verus `-> (r: T)`)
    vis: str = "keep"                 # keep | private | pub
    spec: str = ""                    # requires/ensures/decreases text inserted after the signature
    prologue: str = ""                # inserted as first statement(s) of the body
    closures: dict = field(default_factory=dict)   # ordinal -> (params_text or None, header_rest)  e.g. {1: ("|a: &Activity|", "-> (keep: bool) ensures …")}
    loops: dict = field(default_factory=dict)      # ordinal -> invariant/decreases text
    substs: list = field(default_factory=list)     # (old, new, count) exact-string replacements on the final text (stated deviations)
    attrs: str = ""                   # attribute text put in front (e.g. #[verifier::...])


def splice_fn(src: Source, it: Item, sp: FnSplice) -> str:
    toks = src.toks
    if it.kw != "fn" or it.body_open is None:
        raise LostAnchor(f"{src.path}: `{it.key}` is not a fn with a body")
    head, bo, last = it.head, it.body_open, it.last
    # --- signature
    sig_idx = _sig(toks, head, bo)
    # visibility
    start = head
    if sp.vis in ("private", "pub"):
        z = 0
        if toks[sig_idx[0]].kind == "id" and toks[sig_idx[0]].text == "pub":
            start = sig_idx[1]
            if toks[sig_idx[1]].kind == "p" and toks[sig_idx[1]].text == "(":
                cl = match_close(toks, sig_idx[1])
                start = [k for k in sig_idx if k > cl][0]
    sig_text_pre = ("pub " if sp.vis == "pub" else "")
    # return type naming
    arrow = None
    where_at = None
    depth = 0
    angle = 0
    for z, k in enumerate(sig_idx):
        t = toks[k]
        if k < start:
            continue
        if t.kind == "p":
            if t.text in OPEN: depth += 1
            elif t.text in CLOSE: depth -= 1
            elif t.text == "-" and depth == 0 and z + 1 < len(sig_idx) and toks[sig_idx[z + 1]].text == ">" and toks[sig_idx[z + 1]].s == t.e:
                if arrow is None and _params_closed(toks, sig_idx, z):
                    arrow = z
        elif t.kind == "id" and t.text == "where" and depth == 0:
            where_at = z
    end_sig_tok = sig_idx[-1]
    if sp.ret and arrow is not None:
        rt_first = sig_idx[arrow + 2]
        rt_last = sig_idx[where_at - 1] if where_at is not None else end_sig_tok
        sig_text = (sig_text_pre + src.text[toks[start].s:toks[rt_first].s] + "(" + sp.ret + ": " +
                    src.text[toks[rt_first].s:toks[rt_last].e] + ")" +
                    src.text[toks[rt_last].e:toks[end_sig_tok].e])
    else:
        sig_text = sig_text_pre + src.text[toks[start].s:toks[end_sig_tok].e]
    # --- body with splices
    inserts = []   # (char offset, text) ; replacements as (s, e, text)
    repl = []
    if sp.closures:
        cl = _find_closures(toks, bo + 1, last)
        for ordn, (params, rest) in sp.closures.items():
            if ordn < 1 or ordn > len(cl):
                raise LostAnchor(f"{src.path}: `{it.key}` has {len(cl)} closures, annotation wants #{ordn}")
            b1, b2, bf, bl = cl[ordn - 1]
            if params is not None:
                repl.append((toks[b1].s, toks[b2].e, params))
            braced = toks[bf].kind == "p" and toks[bf].text == "{"
            if braced:
                inserts.append((toks[bf].s, " " + rest + " "))
            else:
                inserts.append((toks[bf].s, " " + rest + " { "))
                inserts.append((toks[bl].e, " }"))
    if sp.loops:
        lp = _find_loops(toks, bo + 1, last)
        for ordn, inv in sp.loops.items():
            if ordn < 1 or ordn > len(lp):
                raise LostAnchor(f"{src.path}: `{it.key}` has {len(lp)} loops, annotation wants #{ordn}")
            kwi, lb = lp[ordn - 1]
            inserts.append((toks[lb].s, "\n" + inv + "\n"))
    body_s, body_e = toks[bo].s, toks[last].e
    pieces = []
    events = [(s, s, txt) for s, txt in inserts] + repl
    events.sort(key=lambda x: (x[0], x[1]))
    cur = body_s + 1
    out = "{"
    if sp.prologue:
        out += "\n    " + sp.prologue
    for s, e, txt in events:
        out += src.text[cur:s] + txt
        cur = e
    out += src.text[cur:body_e]
    text = (sp.attrs + "\n" if sp.attrs else "") + sig_text + ("\n" + sp.spec if sp.spec.strip() else "") + "\n" + out
    for old, new, cnt in sp.substs:
        c = text.count(old)
        if c != cnt:
            raise LostAnchor(f"{src.path}: `{it.key}`: substitution anchor {old!r} found {c} times, expected {cnt}")
        text = text.replace(old, new)
    return text


def _params_closed(toks, sig_idx, z):
    """true when the token at sig position z lies after the closing paren of the parameter list"""
    depth = 0
    seen = False
    for k in sig_idx[:z]:
        t = toks[k]
        if t.kind == "p":
            if t.text == "(":
                depth += 1; seen = True
            elif t.text == ")":
                depth -= 1
    return seen and depth == 0


def apply_substs(text: str, substs, what: str) -> str:
    for old, new, cnt in substs:
        c = text.count(old)
        if c != cnt:
            raise LostAnchor(f"{what}: substitution anchor {old!r} found {c} times, expected {cnt}")
        text = text.replace(old, new)
    return text


# ---------------------------------------------------------------- template expansion

_DIR = re.compile(r"^\s*//@(\w+)\s*(.*)$")


def expand_template(tpl_text: str, repo_root: str, cache: Optional[dict] = None):
    """Expand `//@extract` blocks in a template.  Returns (text, items_info, line_map).

    Block grammar (each line starts with `//@`):
      //@extract <repo-relative file> :: <item path> [ret=<name>] [vis=keep|private|pub] [mode=item|fn|body]
      //@| <spec text line>                 (requires / ensures / decreases – inserted after the signature)
      //@prologue <text>                    (first statement(s) of the body)
      //@closure <k> [|params|] <header rest, e.g. -> (r: bool) ensures …>
      //@loop <k> <invariant …/decreases …>
      //@subst "<old>" => "<new>" count=<n> (stated deviation from verbatim)
      //@attr <attribute text>
      //@end
    `mode=item` (default for non-fn items) copies the item verbatim; `mode=fn` splices.
    line_map: list of (first_line, last_line, label) of generated regions.
    """
    cache = {} if cache is None else cache
    out_lines: List[str] = []
    infos = []
    line_map = []
    # //@include <path relative to /verif/units> <section>  – paste the text between `// [[<section>` and `// ]]<section>`
    # of another template (so that a caller is verified against the callee's verified contract, not a copy of it)
    def _inc(m):
        import os
        base = os.path.join(os.path.dirname(os.path.dirname(os.path.abspath(__file__))), "units")
        txt = open(os.path.join(base, m.group(1))).read()
        a, b = txt.find("// [[" + m.group(2)), txt.find("// ]]" + m.group(2))
        if a < 0 or b < 0:
            raise LostAnchor(f"include section {m.group(2)} not found in {m.group(1)}")
        return txt[txt.index("\n", a) + 1:b]
    for _ in range(4):
        tpl_text, n_inc = re.subn(r"^[ \t]*//@include\s+(\S+)\s+(\S+)[ \t]*$", _inc, tpl_text, flags=re.M)
        if not n_inc:
            break
    lines = tpl_text.split("\n")
    i = 0
    while i < len(lines):
        m = _DIR.match(lines[i])
        if not m or m.group(1) != "extract":
            out_lines.append(lines[i]); i += 1
            continue
        hdr = m.group(2)
        mm = re.match(r"^(\S+)\s*::\s*(.*?)((?:\s+\w+=\S+)*)\s*$", hdr)
        if not mm:
            raise LostAnchor("bad //@extract header: " + hdr)
        rel, ipath, opts = mm.group(1), mm.group(2).strip(), dict(o.split("=", 1) for o in mm.group(3).split())
        sp = FnSplice(ret=opts.get("ret"), vis=opts.get("vis", "keep"))
        spec_lines = []
        i += 1
        while i < len(lines):
            m2 = _DIR.match(lines[i])
            m3 = re.match(r"^\s*//@\|\s?(.*)$", lines[i])
            if m3:
                spec_lines.append("    " + m3.group(1)); i += 1; continue
            if not m2:
                raise LostAnchor("unterminated //@extract block for " + ipath)
            d, rest = m2.group(1), m2.group(2)
            i += 1
            if d == "end":
                break
            elif d == "prologue":
                sp.prologue += rest + "\n"
            elif d == "closure":
                m4 = re.match(r"^(\d+)\s+(\|[^|]*\|)?\s*(.*)$", rest)
                sp.closures[int(m4.group(1))] = (m4.group(2), m4.group(3))
            elif d == "loop":
                m4 = re.match(r"^(\d+)\s+(.*)$", rest)
                k = int(m4.group(1))
                sp.loops[k] = (sp.loops.get(k, "") + "\n        " + m4.group(2)).strip("\n")
            elif d == "subst":
                m4 = re.match(r'^"((?:[^"\\]|\\.)*)"\s*=>\s*"((?:[^"\\]|\\.)*)"\s*count=(\d+)$', rest)
                if not m4:
                    raise LostAnchor("bad //@subst: " + rest)
                un = lambda s: s.replace('\\"', '"').replace("\\n", "\n").replace("\\\\", "\\")
                sp.substs.append((un(m4.group(1)), un(m4.group(2)), int(m4.group(3))))
            elif d == "attr":
                sp.attrs += rest
            else:
                raise LostAnchor("unknown directive //@" + d)
        sp.spec = "\n".join(spec_lines)
        path = repo_root.rstrip("/") + "/" + rel
        if path not in cache:
            try:
                cache[path] = Source(path)
            except FileNotFoundError:
                raise LostAnchor(f"source file {rel} not found")
        src = cache[path]
        src_rel = rel
        if ipath == "*":
            # every top-level item of the file except `use`, `mod` and macro invocations; attributes kept, verbatim
            skip = set(x.strip() for x in opts.get("skip", "").split(",") if x.strip())
            for it in src.items:
                if it.kw in ("use", "mod", "macrocall", "extern") or it.name in skip:
                    continue
                text = apply_substs(src.item_text_with_attrs(it), [sb for sb in sp.substs if sb[0] in src.item_text_with_attrs(it)], f"{rel}: `{it.key}`")
                info = src.item_info(it)
                info["file"] = src_rel
                info["path"] = it.key
                info["deviations"] = [f"subst {o!r}->{n!r}" for o, n, c in sp.substs if o in src.item_text_with_attrs(it)]
                info["spliced"] = None
                infos.append(info)
                first_line = len(out_lines) + 1
                out_lines.extend(text.split("\n"))
                out_lines.append("")
                line_map.append((first_line, len(out_lines), f"{rel}::{it.key}"))
            continue
        if ipath.endswith("/*"):
            # every child of an impl/trait/mod block except the names in skip=…, re-wrapped in the block's own header
            parent = src.find(ipath[:-2])
            if not parent.children:
                raise LostAnchor(f"{rel}: `{ipath}` has no children")
            skip = set(x.strip() for x in opts.get("skip", "").split(",") if x.strip())
            hdr = src.text[src.toks[parent.head].s:src.toks[parent.body_open].e]
            first_line = len(out_lines) + 1
            out_lines.extend(hdr.split("\n"))
            for it in parent.children:
                if it.name in skip:
                    continue
                out_lines.extend(src.item_text_with_attrs(it).split("\n"))
                out_lines.append("")
                info = src.item_info(it)
                info["file"] = src_rel
                info["path"] = ipath[:-2] + "/" + it.key
                info["deviations"] = []
                info["spliced"] = None
                infos.append(info)
            out_lines.append("}")
            line_map.append((first_line, len(out_lines), f"{rel}::{ipath}"))
            missing = skip - {c.name for c in parent.children}
            if missing:
                raise LostAnchor(f"{rel}: `{ipath}` skip list names unknown items {sorted(missing)}")
            continue
        it = src.find(ipath)
        mode = opts.get("mode", "fn" if it.kw == "fn" and it.body_open is not None else "item")
        if mode == "fn":
            text = splice_fn(src, it, sp)
        else:
            text = src.item_text_with_attrs(it) if opts.get("attrs", "keep") == "keep" else src.item_text(it)
            if sp.vis in ("private", "pub") and text.startswith("pub"):
                text = re.sub(r"^pub(\([^)]*\))?\s*", "pub " if sp.vis == "pub" else "", text)
            text = (sp.attrs + "\n" if sp.attrs else "") + apply_substs(text, sp.substs, f"{rel}: `{ipath}`")
        info = src.item_info(it)
        info["file"] = src_rel
        info["path"] = ipath
        info["deviations"] = (["visibility->" + sp.vis] if sp.vis != "keep" else []) + [f"subst {o!r}->{n!r} x{c}" for o, n, c in sp.substs]
        info["spliced"] = {"spec_lines": len(spec_lines), "closures": sorted(sp.closures), "loops": sorted(sp.loops), "ret": sp.ret}
        infos.append(info)
        first_line = len(out_lines) + 1
        out_lines.extend(text.split("\n"))
        line_map.append((first_line, len(out_lines), f"{rel}::{ipath}"))
    return "\n".join(out_lines), infos, line_map


if __name__ == "__main__":
    # small CLI:  extract.py <file> <item path>    prints the verbatim item
    s = Source(sys.argv[1])
    if len(sys.argv) == 2:
        def dump(items, ind=0):
            for it in items:
                print(" " * ind + it.key, s.line_of(it.head), s.line_of(it.last))
                if it.children:
                    dump(it.children, ind + 2)
        dump(s.items)
    else:
        it = s.find(sys.argv[2])
        print(s.item_text(it))
