#!/usr/bin/env python3
"""Writes /verif/MANIFEST.json from the table below and validates it against the schema.
A property is listed under `checks` only when at least one unit serving it exists in units/."""
import json
import os
import sys

HERE = os.path.dirname(os.path.abspath(__file__))
VERIF = os.path.dirname(HERE)
sys.path.insert(0, HERE)
from runner import load_units  # noqa: E402

TECH_V = "Verus contracts on verbatim-extracted functions"
TECH_K = "Kani/CBMC contract harnesses on verbatim-extracted functions"

# property -> (level, text, note, technique, design_ref)
TECH_M = "Verus contracts + Kani/CBMC contract harnesses on verbatim-extracted functions"
GLUE = " The whole-system statement additionally rests on unverified glue listed in the evidence (`not_covered`)."

CLAIMS = {
    "C01": ("proof",
            "Decided at the gates every insertion must pass: time-window/shift gate (accept => step simulation of the inserted leg feasible; complete over all f64 in [0,1e9] in the thorough tier, "
            "integer-valued domain in the quick tier), capacity gate has_demand_violation for Single- and MultiDimLoad (sound and complete w.r.t. the fit conditions; complete proofs, loops are the constant 8), "
            "load algebra == element-wise spec, tour size gate exact (complete), distance-limit gate exact and duration-limit gate sound against a replay (bounded), skills gate (19 constant instances), reachability and compatibility gates exact (complete), locked-jobs gate (a bound job only on its vehicle; a foreign job only where a strict locked block stays contiguous and anchored; bounded, U01h), tour-order gate exact (bounded, U01i), job-group gate (bounded), multi-job dynamic demand checked in every reload interval from the insertion on (bounded), the combinator consulting every constraint (bounded <= 3); lemmas L01 (capacity conditions => no point of the interval exceeds capacity) and L06 (latest-arrival recurrence => later windows kept), any length." + GLUE,
            "Trusted: Kani/CBMC; stub environments of the extracted gates; meaning of cached latest_arrival / load vectors (U03a, U05c bounded); every search operator, goal assembly, "
            "break/reload/recharge/fast-service/area gates and lock rule construction are NOT under contract: a mutation there is not detected.",
            TECH_K, "§3 C01"),
    "C02": ("proof",
            "Primitives that move a job between buckets: JobRemovalTracker::try_remove_job (exact whole-state postcondition: job leaves one tour entirely and is queued once, locked/other routes/unassigned/ignored untouched, "
            "false => nothing changes) verified against the verified contracts of every Tour mutator (representation invariant jobs == jobs of activities); Verus, unbounded; lemma L02: removal / insertion / finalisation steps satisfying these contracts conserve, for every job, the number of places it lives in; insertion application / failure handling / finalisation / re-queuing (insertions.rs verbatim) keep every job accounted exactly once on small constant-shaped states (Kani, bounded; the heavier ones in the thorough tier only). Clustering: get_filter_policy (clustering_reader.rs verbatim, U02d, bounded) keeps every relation job and every user-excluded job out of vicinity clustering." + GLUE,
            "Trusted: Verus/Z3; Job identity model (Arc pointer identity), Vec::retain contract; insertion application, finalisation, route removal, decomposition merge, solution_writer are NOT under contract.",
            TECH_V, "§3 C02"),
    "C03": ("model_checking",
            "update_route_schedule (schedules, totals, latest-arrival and waiting states) equals an independent forward/backward replay from the bare tour, bit-equal, from any cache content - "
            "bounded (<= 2 job activities, integer-valued times). total cost == sum over tours of vehicle and driver parts (U03b, bounded); reported Statistic sums add field by field (U03c, Verus). Place tags: job_reader::get_single (verbatim, U03d, bounded <= 3 places) stores every tag with the index of its own place and builds place i from input place i. Writer/rounding clauses are not decided." + GLUE,
            "Bounded Kani harnesses (stated bounds); stub environment; get_total_cost (U03b, bounded) and the Statistic sum (U03c, Verus) are under contract, solution_writer::create_tour is NOT.",
            TECH_K + " (bounded)", "§3 C03"),
    "C04": ("proof",
            "Claimed for the primitives search steps are composed of, plus one operator kernel: departure-time rescheduling (try_advance_departure_time keeps every activity of a feasible tour inside its window; bounded, U04a). Otherwise: the invariant (tour well-formed, job set == jobs of activities, locked jobs untouched, a removed job re-queued exactly once) is inductive "
            "for try_remove_job and every Tour mutator (Verus, unbounded, all histories). Hand-over protocol of RedistributeSearch::search and RuinAndRecreate::search over ghost state (U05e, complete relative to assumed callee contracts): returned under the original problem, aggregates recomputed after the last change of tours, parent untouched. LegSelection (exhaustive and the stochastic branch's input) offers a later task of a multi-job only legs behind the previous one (U06b). The other ~40 operator files are glue: a mutation that makes an operator bypass these primitives is not detected.",
            "Trusted: Verus/Z3; see C02. Operator bodies (ruin/recreate/local/decompose/infeasible/lkh search) and deep copies are NOT under contract; redistribute and ruin-and-recreate only for their hand-over tail.",
            TECH_V, "§3 C04"),
    "C05": ("model_checking",
            "Stale-flag protocol: every mutable RouteContext accessor marks the context stale (Verus, unbounded); accept_route_state clears and recomputes exactly the stale routes, runs every hook once in order; "
            "accept_solution_state restarts until a full pass is change-free and leaves all routes fresh (bounded); schedule/statistics recomputation is independent of the previous cache content (bounded <= 2 activities); job-group tags of every route equal recomputation from its tour after every hand-over and insertion, whatever the stale flags (bounded, U05d); RedistributeSearch/RuinAndRecreate hand over aggregates computed after their last change of the tours, restore() computes aggregates then drops empty tours (ghost-state protocol proof, U05e)." + GLUE,
            "Bounded Kani harnesses + Verus accessors; of the individual features' accept_* hooks groups (U05d), compatibility (U01g) and capacity states (U05c) are under contract; tour-order violation count (U01i) too; reloads, limits, fast service are NOT.",
            TECH_M, "§3 C05"),
    "C06": ("proof",
            "Soundness: time-window gate and capacity gate accept only legs whose step simulation is feasible (complete Kani proofs, see C01). Completeness: on the exact (integer-valued) domain a feasible leg in a consistent tour "
            "is accepted mid-tour/closed-tour, and at the open end under the stricter premise the code implements; the open-end converse as the property states it is KNOWN FINDING F5. "
            "Capacity gate: everything fits => accepted (complete). Plumbing: analyze_insertion_in_route_leg tries every place of the job and keeps the cheapest feasible one (bounded, U06a); exhaustive leg selection offers every leg from `skip` on once, in order, and the stochastic branch hands exactly those legs to its sampler (bounded, U06b); eval_single/MultiContext keep the better alternative (Verus, U06c/U06d); the route-level time pre-check evaluate_job refuses a job only when some task has no time span overlapping the shift (bounded, U01j); eval_multi prices each later task of a multi-task job against a tour holding the earlier tasks where, and at the place, the result reports them (bounded, U20e)." + GLUE,
            "Trusted: as C01; of the evaluator plumbing analyze_insertion_in_route_leg (U06a), LegSelection (U06b), eval_single (U06c), MultiContext (U06d), evaluate_job (U01j) and eval_multi for one permitted order on an empty tour (U20e) are under contract, sample_search and eval_multi's repeated passes are NOT; machine floats: converse demanded on integer-valued inputs only.",
            TECH_K, "§3 C06"),
    "C07": ("model_checking",
            "Iterative::run executes exactly min(limit, k) generations for MaxGeneration(limit) and a quota that fires at an arbitrary poll index k, returns Ok with the ranked prefix (bounded limit <= 3, k <= 4); "
            "MaxGeneration/MaxTime fire iff the limit is reached (complete), estimates in [0,1] (bounded domains), composite = any/max (<= 3); EvolutionSimulator::run still returns a solution when the quota fires at any poll index including before construction (bounded, U07d)." + GLUE,
            "Bounded Kani harness in a stub rosomaxa environment; quota polls inside insertion heuristic / decompose / swap-star and 'returned solution satisfies C01-C03' are inherited from those kernels, not re-proved.",
            TECH_K + " (bounded + complete guards)", "§3 C07"),
    "C08": ("model_checking",
            "Greedy: add step contract from an arbitrary state (complete, hence all histories), add_all batches <= 3 (found defect F1, fixed); Elitism: one add/add_all step from an arbitrary sorted bounded state keeps the best, "
            "stays sorted/bounded/duplicate-free, invents nothing, reports improvement correctly; selection only yields members (bounded: population <= 5, constant lengths enumerated); Rosomaxa::add_all offers every individual of a batch that is not worse than the best known to the elite, hands the whole batch to the phase storage and returns the elite's verdict (bounded: batch of 3, U08d).",
            "Kani on the real rosomaxa crate in a scratch overlay (no substitutions); Rosomaxa::add_all/add verbatim against the elite's contract in a stub environment (U08d); GSOM network storage, phase switches and selection are NOT under contract; objective assumed a total preorder.",
            TECH_K + " on a whole-crate overlay", "§3 C08"),
    "C09": ("model_checking",
            "InsertionCost: cmp == lexicographic total_cmp over zero-padded vectors, antisymmetric/reflexive, eq/partial_cmp/operators agree, add/sub element-wise with missing = 0, inverse on the exact domain "
            "(vector lengths <= 3 enumerated, every finite f64 component); transitivity length <= 2; dominance_order (multi-objective layers) is the Pareto dominance relation, reflexive and antisymmetric (<= 3 objectives); lemma L09: lexicographic order over padded sequences is a total preorder for any lengths (Verus); Goal::total_order == lexicographic comparison of fitness with +0 == -0 for two single-objective layers, reflexive/antisymmetric/transitive (bounded, U09b).",
            "Bounded by vector length / layer count (constants enumerated); real tinyvec compiled in; goals with a multi-objective layer only through dominance_order (U09c).",
            TECH_K + " (bounded lengths)", "§3 C09"),
    "C10": ("model_checking",
            "The shared time-window rule check_time_windows == documented rule E1103 for <= 3 (thorough: 4) windows (found defect F2, fixed); TimeWindow::intersects == inclusive overlap. "
            "Job rules E1101/E1103/E1105/E1106/E1107: Err(code) iff the documented predicate is broken, over all four task kinds (one job, one task; found defect F3, fixed). Vehicle rules E1304 (reload windows may intersect each other, must touch the shift), E1306, E1307 against check_time_windows' contract (U10c). "
            "Relation rules E1200, E1201, E1202, E1204, E1205, E1206 with is_reserved_job_id (U10d), routing rules E1500..E1505 with the shared get_duplicates helper (U10e), id rules E1100, E1104, E1300 (U10g), objective rules E1600-E1604, E1606, E1607 over the real Objective enum (U10f): "
            "each returns Err with its own code exactly when the documented rule is broken (bounded: 1-2 relations / profiles / vehicles / jobs, ids from a table of constant strings). The remaining rule functions (E1102, E1203, E1207, E1301, E1302, E1303, E1308, E1605), the rule-group assembly and the reader are not under contract.",
            "Bounded Kani harnesses; std String / Vec / HashMap / HashSet replaced by stated stand-ins (env/strings.rs: picks from a table of constant strings; env/vec_fixed.rs; env/collections_fixed_n.rs); RFC3339 parsing, the JSON reader and 8 of the 38 rule functions are NOT under contract.",
            TECH_K + " (bounded)", "§3 C10"),
    "C12": ("model_checking",
            "Limits group of the checker only: check_shift_limits / check_shift_time / check_recharge_limits (verbatim) with CheckerContext::get_vehicle / get_vehicle_shift: a tour is accepted exactly when max distance, max shift time, tour size, "
            "tour-inside-a-shift and distance-between-recharges hold; a tour of an unknown vehicle is rejected (bounded: one tour of <= 3 stops, <= 2 shifts, integer values 0..9). "
            "The other five rule groups (load, relations, breaks, assignment, routing) and CheckerContext::new / check are NOT under contract: a breach there is not detected.",
            "Bounded Kani harnesses; time strings are opaque tokens (parse_time is a projection), std String / Vec replaced by stated stand-ins, message text reduced to its template; 5 of the 6 rule groups are not under contract.",
            TECH_K + " (bounded)", "§3 C12"),
    "C14": ("proof",
            "Tour: representation invariant (depot ends in place, interior activities carry jobs, job set == jobs of activities) preserved by every mutator with whole-view postconditions, getters equal their spec - "
            "Verus, unbounded, hence all operation histories; legs() enumeration incl. the open-end leg and the bare-start case, index/index_last/job_activities, deep_copy independence (Kani, bounded <= 3 job activities); vehicle registry (registry.rs verbatim): from ANY state of 3 vehicles in 2 type groups one acquire/release matches the reference model (a vehicle is handed out exactly when free, never twice), available/next/all enumerate exactly the free / one free per group / all vehicles, deep copies are independent, a slice knows only the kept vehicles, Registry::new offers everything (Kani, bounded, U14c).",
            "Trusted: Verus/Z3 + Kani; Job identity model; Vec::retain contract; registry unit: std hash collections, Arc<Actor> and the lazy FlatMap adapter replaced by stated stand-ins (env/collections_fixed.rs, leaked reference, env/eager.rs); callers keeping registry and tours in step are glue.",
            TECH_V, "§3 C14"),
    "C15": ("proof",
            "First sentence: the reducer (choose_best_result, BestResultSelector::select_insertion, select_cost) returns one of its arguments with the minimal cost (Verus); lemma L15: every fold/reduce tree over any "
            "partition and order yields a leaf with the minimal cost. Fold step: eval_job_insertion_in_route never returns something worse than the accumulated alternative and never turns an accumulated success into a failure (Verus, verbatim body, U15b). Tie-breaks are left open on purpose.",
            "Trusted: rayon applies the reducer over some partition tree, each item once; the fold step's pruning premise (non-negative activity-level quotes) is outside the units; thread interleavings not explored.",
            TECH_V + " + lemma", "§3 C15"),
    "C16": ("proof",
            "Time-agnostic and simple matrix providers return exactly the row-major entry of the profile's matrix, durations multiplied (same f64 operation) by profile.scale, distances unscaled, fallback exactly when absent - "
            "Verus, any matrix size and profile count; time-dependent look-ups (value at a matrix timestamp, first/last outside the span, linear interpolation / left value in between) on a provider state built directly (Kani, bounded <= 3 matrices, U16b); TimeAwareMatrixTransportCost::new establishes that state - matrices in chronological order, timestamp list in the same order - whatever the supply order, and rejects missing timestamps / single-matrix profiles (Kani, bounded: 2 matrices, U16c).",
            "Floats uninterpreted in the Verus unit (operation identity, not numerics); the time-aware constructor only for 2 matrices over a MatrixData stub without the value vectors; the other constructors' rejections, fleet_reader, haversine are NOT under contract.",
            TECH_V, "§3 C16"),
    "C17": ("model_checking",
            "Density clustering create_clusters (dbscan.rs, verbatim): clusters pairwise disjoint, each grown from a core point, members density-reachable from it, everything density-reachable clustered, no core point unclustered, only input points - "
            "on the 64 neighbourhood graphs on 4 points for min_points 2 and 3 (thorough tier: all of them; quick tier: 32 graphs, min_points 2) (U17a). k-medoids (kmedoids.rs, verbatim, with the repository's sequential fold_reduce/map_reduce): "
            "the result is a partition of all points in which no point is closer to another cluster's medoid than to its own (4 points, 64 constant distance tables in the thorough tier / 3 in the quick tier, k = 2, <= 2 refinement rounds; U17b). "
            "The Lin-Kernighan search (lkh/*: termination, permutation of the nodes, same start node, cost not above the input) is NOT under contract: CBMC does not finish on it even for a constant 5-node instance (DESIGN §1 P28).",
            "Bounded Kani harnesses; std hash collections and Vec replaced by stated stand-ins; LKH (a third of the property) is not decided; defect F4 (fixed) was in that part and no check of this family guards it.",
            TECH_K + " (bounded)", "§9 C17"),
    "C18": ("proof",
            "SlotMachine: one-step contract from any state in the invariant box (shape +1/2 and positive, rate non-decreasing positive finite, variance finite >= 0, mean within hull of old mean and reward up to one ulp, "
            "sampler preconditions met) - complete in the thorough tier (n < 2^40), n < 2^12 in the quick tier; termination estimates in [0,1] (see C07); MinVariation::is_termination updates its window exactly once per generation in every phase and fires iff allowed and the window says so (bounded, U18d); random_argmax returns a maximal entry for every non-empty list whatever the draws (bounded <= 4); relative distance / distance reward finite, signed and bounded by the priority amplifier (bounded) - the documented [0,6] reward range is KNOWN FINDING F6.",
            "Trusted: powi(2) = x*x; sampler contract; rewards <= 1e4; history link by integer lemma L18 (Verus); reward computation, weighted/argmax selection, MinVariation not under contract.",
            TECH_K, "§3 C18"),
    "C19": ("proof",
            "Compaction and phase clauses: the coordinate remap used by GSOM compaction (get_offset) is proved strictly monotone on the surviving rows/columns "
            "(hence injective: compaction cannot merge two nodes) and contracting towards the origin, for every network shape containing the origin "
            "and both decimation factors (complete loop-free Kani proof over all i32 inputs with |v| <= 2^20, U19a); contract_graph with the real Network container "
            "operations (get_mut/remove/remap/size/get_nodes/find, get_network_shape): the map never grows, keeps at least four nodes or is left alone, every key equals its node's "
            "coordinate, lookup finds exactly that node, no node is swallowed by the shift, re-training runs with growth off (bounded: rectangular blocks up to 12 nodes, U19b); "
            "Rosomaxa::update_phase / selection_phase / optimize_network: phases move only forward, the map is never created from an empty set, the selection size stays "
            "positive (bounded, U19c). Growth/training/weight clauses are not decided.",
            "Trusted: Kani/CBMC; array-backed map look-alike; network training (train_on_data, create_network, Network::new, grow_nodes, adjust_weights, distribute_error, mse) is replaced by recorders or not under contract at all: weights/error finiteness and node capacity are NOT decided.",
            TECH_K + " (U19a loop-free, complete; U19b/U19c bounded)", "§3 C19"),
    "C20": ("model_checking",
            "Distance objective: estimate_leg's quoted delta equals total_distance(after) - total_distance(before) exactly, for empty tour (vehicle ending at a different location than it starts), first/last/open-end leg (bounded <= 1 existing job activity, integer-valued matrix); unassigned-jobs and number-of-tours objectives: quote == change (bounded); total value of served jobs incl. the constructor's estimate closure: quote == change, fitness == minus the total (bounded, U20d); combined cost objective (estimate_route + estimate_activity, TransportCost::cost, ActivityCost::cost vs get_total_cost after update_route_schedule) with equal per-time rates and no waiting: quote == change (bounded <= 1 existing job activity, asymmetric matrix, U20c); multi-task jobs: eval_multi's quote is the route cost plus the tasks' quotes, each task priced against the tour with the earlier tasks at their reported places (bounded, U20e); lemma L20 (telescoping, any tour length).",
            "Bounded Kani harnesses; the waiting-time correction of CostObjective and the non-additive objectives (work balance, compactness, fast service) are not under contract.",
            TECH_K + " (bounded)", "§3 C20"),
}

NOT_APPLICABLE = {
    "C11": "serde-derive / serde_json / RFC3339 string code: Verus has no str reasoning and cannot see derive output, CBMC does not terminate on serde_json/time parsing; no contract within reach expresses the round trip (DESIGN §3 C11)",
    "C12": "the checker is string-keyed (job ids, activity types), parses every time with parse_time and builds errors with format!, and needs solver-produced documents as inputs; outside both verifiers (DESIGN §3 C12)",
    "C13": "text parsing (split_whitespace, str::parse): string reasoning is outside Verus and CBMC (DESIGN §3 C13)",
    "C17": "lkh / dbscan / k-medoids are closure and iterator code over tree/hash collections with float gains: outside Verus' subset, and CBMC does not terminate even at 3 points / 5 nodes (probes P25, P28); defect F4 found by reading was repaired but no check of this family guards it (DESIGN §3 C17)",
}


def main():
    units = load_units()
    served = {p for u in units.values() for p in u["properties"]}
    props = [json.loads(l) for l in open(os.path.join(VERIF, "properties.jsonl"))]
    checks, na = [], []
    for p in props:
        pid = p["id"]
        if pid in CLAIMS and pid in served:
            level, text, note, tech, ref = CLAIMS[pid]
            checks.append({
                "property_id": pid,
                "quick_cmd": f"./check {pid} --tier quick",
                "thorough_cmd": f"./check {pid} --tier thorough",
                "evidence_file": f"/verif/evidence/{pid}.json",
                "replay_cmd_template": "./check replay {path}",
                "engine": "vf",
                "level_claimed": {"category": level, "text": text, "design_ref": "DESIGN.md " + ref},
                "level_note": note,
                "technique": tech,
            })
        else:
            na.append({"property_id": pid, "reason": NOT_APPLICABLE.get(pid, "unit not built: no contract unit for this property exists yet, nothing is claimed")})
    m = {
        "version": 1,
        "setup_cmd": "python3 vf/selfcheck.py",
        "hooks": {
            "guard": "none (cfg(kani) exists only inside scratch copies made by the checks; /repo carries no hook)",
            "enable": "no hooks: checks re-extract the functions under contract from /repo's working tree (or overlay a scratch copy of it) on every run",
            "baseline_off_cmd": "cd /repo && cargo test --workspace --no-fail-fast --offline",
            "source_commits": [],
            "add_only": True,
        },
        "engines": [{"name": "vf", "path": "/verif/vf", "serves_properties": [c["property_id"] for c in checks],
                     "kind_free_text": "contract-based deductive verification: Verus (unbounded) and Kani/CBMC (bit-precise; complete when loop-free/constant-bounded, else labelled bounded) on functions re-extracted mechanically from /repo on every run"}],
        "checks": checks,
        "notes": "fix: commits in /repo: d99f5d1 (C08 Greedy::add_all), 547b267 (C10 check_time_windows), 56c7d53 (C10 E1103), adce926 (C17 lkh try_path). Known findings recorded, not repaired: F5 (C06 open-end gate), F6 (C18 documented reward range), see known_findings.txt. Independent seeded changes and which checks catch them: seeded/<id>/meta.json, DESIGN.md 8.4 and 9.4. Exit 2 of a check = undecided (lost anchor, unsupported construct, timeout), never an alarm.",
        "not_applicable": na,
    }
    json.dump(m, open(os.path.join(VERIF, "MANIFEST.json"), "w"), indent=1)
    try:
        import jsonschema
        jsonschema.validate(m, json.load(open("/root/.vp/MANIFEST.schema.json")))
        print("MANIFEST.json valid;", len(checks), "checks,", len(na), "not applicable")
    except ImportError:
        print("MANIFEST.json written (jsonschema not importable, not validated)")


if __name__ == "__main__":
    main()
