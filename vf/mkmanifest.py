#!/usr/bin/env python3
"""Writes /verif/MANIFEST.json from the table below and validates it against the schema.
A property is listed under `checks` only when at least one unit serving it exists in units/."""
import json
import os
import sys

HERE = os.path.dirname(os.path.abspath(__file__))
VERIF = os.path.dirname(HERE)
sys.path.insert(0, HERE)
from runner import load_units  # noqa: E402

TECH_V = "Verus contracts on verbatim-extracted functions"
TECH_K = "Kani/CBMC contract harnesses on verbatim-extracted functions"

# property -> (level, text, note, technique, design_ref)
CLAIMS = {
    "C19": ("proof",
            "Compaction clause only: the coordinate remap used by GSOM compaction (get_offset) is proved strictly monotone on the surviving rows/columns "
            "(hence injective: compaction cannot merge two nodes) and contracting towards the origin (never grows the map), for every network shape containing the origin "
            "and both decimation factors; complete loop-free Kani proof over all i32 inputs with |v| <= 2^20. Growth/training/weight clauses are not decided.",
            "Trusted: Kani/CBMC; Network::compact passes (3,4); network shape contains the origin; contract_graph/Network::remap glue and all training code unverified.",
            TECH_K + " (loop-free, complete)", "§3 C19"),
}

NOT_APPLICABLE = {
    "C11": "serde-derive / serde_json / RFC3339 string code: Verus has no str reasoning and cannot see derive output, CBMC does not terminate on serde_json/time parsing; no contract within reach expresses the round trip (DESIGN §3 C11)",
    "C12": "the checker is string-keyed (job ids, activity types), parses every time with parse_time and builds errors with format!, and needs solver-produced documents as inputs; outside both verifiers (DESIGN §3 C12)",
    "C13": "text parsing (split_whitespace, str::parse): string reasoning is outside Verus and CBMC (DESIGN §3 C13)",
    "C17": "lkh / dbscan / k-medoids are closure and iterator code over tree/hash collections with float gains: outside Verus' subset, and CBMC does not terminate even at 3 points / 5 nodes (probes P25, P28); defect F4 found by reading was repaired but no check of this family guards it (DESIGN §3 C17)",
}


def main():
    units = load_units()
    served = {p for u in units.values() for p in u["properties"]}
    props = [json.loads(l) for l in open(os.path.join(VERIF, "properties.jsonl"))]
    checks, na = [], []
    for p in props:
        pid = p["id"]
        if pid in CLAIMS and pid in served:
            level, text, note, tech, ref = CLAIMS[pid]
            checks.append({
                "property_id": pid,
                "quick_cmd": f"./check {pid} --tier quick",
                "thorough_cmd": f"./check {pid} --tier thorough",
                "evidence_file": f"/verif/evidence/{pid}.json",
                "replay_cmd_template": "./check replay {path}",
                "engine": "vf",
                "level_claimed": {"category": level, "text": text, "design_ref": "DESIGN.md " + ref},
                "level_note": note,
                "technique": tech,
            })
        else:
            na.append({"property_id": pid, "reason": NOT_APPLICABLE.get(pid, "unit not built: no contract unit for this property exists yet, nothing is claimed")})
    m = {
        "version": 1,
        "setup_cmd": "python3 vf/selfcheck.py",
        "hooks": {
            "guard": "none (cfg(kani) exists only inside scratch copies made by the checks; /repo carries no hook)",
            "enable": "no hooks: checks re-extract the functions under contract from /repo's working tree (or overlay a scratch copy of it) on every run",
            "baseline_off_cmd": "cd /repo && cargo test --workspace --no-fail-fast --offline",
            "source_commits": [],
            "add_only": True,
        },
        "engines": [{"name": "vf", "path": "/verif/vf", "serves_properties": [c["property_id"] for c in checks],
                     "kind_free_text": "contract-based deductive verification: Verus (unbounded) and Kani/CBMC (bit-precise; complete when loop-free/constant-bounded, else labelled bounded) on functions re-extracted mechanically from /repo on every run"}],
        "checks": checks,
        "notes": "fix: commits in /repo: d99f5d1 (C08 Greedy::add_all), 547b267 (C10 check_time_windows), 56c7d53 (C10 E1103), adce926 (C17 lkh try_path). Known finding recorded, not repaired: F5 (C06 open-end gate), see known_findings.txt. Exit 2 of a check = undecided (lost anchor, unsupported construct, timeout), never an alarm.",
        "not_applicable": na,
    }
    json.dump(m, open(os.path.join(VERIF, "MANIFEST.json"), "w"), indent=1)
    try:
        import jsonschema
        jsonschema.validate(m, json.load(open("/root/.vp/MANIFEST.schema.json")))
        print("MANIFEST.json valid;", len(checks), "checks,", len(na), "not applicable")
    except ImportError:
        print("MANIFEST.json written (jsonschema not importable, not validated)")


if __name__ == "__main__":
    main()
