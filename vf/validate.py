#!/usr/bin/env python3
"""validate MANIFEST.json and evidence/*.json against the schemas (run with python3-vt, which has jsonschema)"""
import glob, json, sys
import jsonschema
ok = True
def v(doc, schema, name):
    global ok
    try:
        jsonschema.validate(json.load(open(doc)), json.load(open(schema)))
        print("valid:", name)
    except Exception as e:
        ok = False
        print("INVALID:", name, str(e)[:400])
v("/verif/MANIFEST.json", "/root/.vp/MANIFEST.schema.json", "MANIFEST.json")
for f in sorted(glob.glob("/verif/evidence/*.json")):
    v(f, "/root/.vp/EVIDENCE.schema.json", f)
sys.exit(0 if ok else 1)
